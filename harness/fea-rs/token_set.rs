// C13 — error recovery "skips to a recovery set": the recovery sets are TokenSet bit masks over the lexer's Kind.
// The representation (one bit of a u128 per Kind discriminant) is only sound while every Kind is < 128.
#[cfg(any(kani, verif_replay))]
mod verif_proofs {
    use super::*;
    use verif_shim::vk;
    use verif_shim::vk_cover;

    /// any lexer Kind (the enum is repr(u16), dense from Eof = 0 to Tombstone, the last variant)
    fn any_kind() -> Kind {
        let d = vk::any_u16();
        vk::assume(d <= Kind::Tombstone as u16);
        // SAFETY: Kind is #[repr(u16)] with dense discriminants 0..=Tombstone (asserted by c13_token_set_kinds_fit_the_mask)
        unsafe { std::mem::transmute::<u16, Kind>(d) }
    }

    /// the bit-mask representation has room for every Kind; shifting never overflows (dev: panic, release: aliasing)
    #[cfg_attr(kani, kani::proof)]
    #[cfg_attr(kani, kani::unwind(4))]
    pub(super) fn c13_token_set_kinds_fit_the_mask() {
        assert!((Kind::Tombstone as u16) < 128, "VK_ASSERT token_set_every_kind_below_128");
        assert!(Kind::Eof as u16 == 0, "VK_ASSERT token_set_first_kind_is_zero");
        let k = any_kind();
        assert!(mask(k) == 1u128 << (k as u16 as u32) && mask(k).count_ones() == 1, "VK_ASSERT token_set_mask_is_one_bit");
        vk_cover!(k == Kind::Tombstone, "last kind");
    }

    /// membership is exact: from/new/add/union contain exactly what was put in, for all kinds
    #[cfg_attr(kani, kani::proof)]
    #[cfg_attr(kani, kani::unwind(5))]
    pub(super) fn c13_token_set_membership_exact() {
        let (a, b, c, probe) = (any_kind(), any_kind(), any_kind(), any_kind());
        let one: TokenSet = a.into();
        assert!(one.contains(probe) == (probe == a), "VK_ASSERT token_set_singleton");
        let two = TokenSet::new(&[a, b]);
        assert!(two.contains(probe) == (probe == a || probe == b), "VK_ASSERT token_set_new");
        let three = two.add(c);
        assert!(three.contains(probe) == (probe == a || probe == b || probe == c), "VK_ASSERT token_set_add");
        let u = one.union(TokenSet::new(&[b, c]));
        assert!(u.contains(probe) == three.contains(probe), "VK_ASSERT token_set_union");
        assert!(!TokenSet::EMPTY.contains(probe), "VK_ASSERT token_set_empty");
        vk_cover!(a != b && b != c && probe == c, "three distinct kinds, probe is the added one");
        vk_cover!(probe != a && probe != b && probe != c, "probe outside");
    }

    /// the recovery sets the grammar uses say what their names say (spot facts that recovery relies on)
    #[cfg_attr(kani, kani::proof)]
    #[cfg_attr(kani, kani::unwind(4))]
    pub(super) fn c13_token_set_recovery_sets() {
        let k = any_kind();
        assert!(TokenSet::SEMI.contains(k) == (k == Kind::Semi), "VK_ASSERT token_set_semi");
        assert!(TokenSet::SEMI_RBRACE.contains(k) == (k == Kind::Semi || k == Kind::RBrace), "VK_ASSERT token_set_semi_rbrace");
        assert!(TokenSet::TOP_SEMI.contains(k) == (TokenSet::TOP_LEVEL.contains(k) || k == Kind::Semi), "VK_ASSERT token_set_top_semi");
        assert!(TokenSet::TOP_AND_FEATURE.contains(k) == (TokenSet::TOP_LEVEL.contains(k) || TokenSet::STATEMENT.contains(k)), "VK_ASSERT token_set_top_and_feature");
        assert!(!TokenSet::RULES.contains(k) || TokenSet::STATEMENT.contains(k), "VK_ASSERT token_set_rules_are_statements");
        assert!(!TokenSet::STATEMENT.contains(k) || TokenSet::FEATURE_STATEMENT.contains(k), "VK_ASSERT token_set_statement_subset");
        // Eof and trivia are never in a recovery set: recovery loops stop at Eof by a separate test
        if k == Kind::Eof || k == Kind::Whitespace || k == Kind::Comment || k == Kind::Tombstone {
            assert!(!TokenSet::TOP_AND_FEATURE.contains(k) && !TokenSet::FEATURE_STATEMENT.contains(k) && !TokenSet::SEMI_RBRACE.contains(k), "VK_ASSERT token_set_no_eof_or_trivia");
        }
        vk_cover!(TokenSet::RULES.contains(k), "a rule keyword");
    }
}
