// C13 — the FEA lexer is total and lossless on every window of N bytes, from every lexer state.
#[cfg(any(kani, verif_replay))]
mod verif_proofs {
    use super::*;
    use verif_shim::vk;
    use verif_shim::vk_cover;

    fn any_state() -> (bool, bool, ExpectingPath) {
        let p = match vk::any_u8_in(0, 2) { 0 => ExpectingPath::Ready, 1 => ExpectingPath::SawInclude, _ => ExpectingPath::InPath };
        (vk::any_bool(), vk::any_bool(), p)
    }

    /// N ASCII bytes (each byte < 0x80 is a full char: stated restriction), lexer mode flags symbolic at entry
    fn lossless_ascii<const N: usize>() {
        let mut bytes = [0u8; N];
        let mut i = 0;
        while i < N { bytes[i] = vk::any_u8(); vk::assume(bytes[i] < 0x80); i += 1; }
        let s = unsafe { std::str::from_utf8_unchecked(&bytes) };
        let (ab, an, ip) = any_state();
        let mut lx = Lexer { input: s, pos: 0, after_backslash: ab, after_number_or_float: an, in_path: ip };
        let mut pos = 0usize;
        let mut steps = 0usize;
        let mut saw_eof = false;
        while steps < N + 1 {
            let t = lx.next_token();
            if t.kind == Kind::Eof {
                assert!(pos == N, "VK_ASSERT eof_only_at_end_of_input");
                assert!(t.len == 0, "VK_ASSERT eof_token_is_empty");
                saw_eof = true;
                break;
            }
            assert!(t.len > 0, "VK_ASSERT every_token_consumes_input");
            pos += t.len;
            assert!(pos <= N && pos == lx.pos, "VK_ASSERT token_lengths_track_the_cursor");
            steps += 1;
        }
        assert!(saw_eof, "VK_ASSERT token_stream_terminates_within_n_plus_one_steps");
        vk_cover!(steps == N, "N one-byte tokens");
        vk_cover!(steps == 1 && N > 1, "one token spanning the window");
    }

    #[cfg_attr(kani, kani::proof)]
    #[cfg_attr(kani, kani::unwind(7))]
    pub(super) fn c13_lexer_lossless_ascii_n3() { lossless_ascii::<3>(); }

    #[cfg_attr(kani, kani::proof)]
    #[cfg_attr(kani, kani::unwind(7))]
    pub(super) fn c13_lexer_lossless_ascii_n4() { lossless_ascii::<4>(); }

    #[cfg_attr(kani, kani::proof)]
    #[cfg_attr(kani, kani::unwind(8))]
    pub(super) fn c13_lexer_lossless_ascii_n5() { lossless_ascii::<5>(); }

    /// one two-byte char (0xC2..0xDF, 0x80..0xBF) between two ASCII bytes: token boundaries never split it
    #[cfg_attr(kani, kani::proof)]
    #[cfg_attr(kani, kani::unwind(7))]
    pub(super) fn c13_lexer_char_boundaries_2byte() {
        let (a, z) = (vk::any_u8(), vk::any_u8());
        let (b0, b1) = (vk::any_u8(), vk::any_u8());
        vk::assume(a < 0x80 && z < 0x80 && b0 >= 0xC2 && b0 <= 0xDF && b1 >= 0x80 && b1 <= 0xBF);
        let bytes = [a, b0, b1, z];
        let s = unsafe { std::str::from_utf8_unchecked(&bytes) };
        let (ab, an, ip) = any_state();
        let mut lx = Lexer { input: s, pos: 0, after_backslash: ab, after_number_or_float: an, in_path: ip };
        let mut pos = 0usize;
        let mut steps = 0usize;
        let mut done = false;
        while steps < 5 {
            let t = lx.next_token();
            if t.kind == Kind::Eof { assert!(pos == 4 && t.len == 0, "VK_ASSERT eof_only_at_end_of_input"); done = true; break; }
            assert!(t.len > 0, "VK_ASSERT every_token_consumes_input");
            pos += t.len;
            assert!(pos != 2, "VK_ASSERT token_boundary_is_a_char_boundary");
            steps += 1;
        }
        assert!(done, "VK_ASSERT token_stream_terminates_within_n_plus_one_steps");
        vk_cover!(steps >= 2, "the window is split into several tokens");
    }

    /// the include-path state machine: a path is only entered by `include` `(` (whitespace allowed between)
    #[cfg_attr(kani, kani::proof)]
    #[cfg_attr(kani, kani::unwind(3))]
    pub(super) fn c13_expecting_path_transitions() {
        let mut st = match vk::any_u8_in(0, 2) { 0 => ExpectingPath::Ready, 1 => ExpectingPath::SawInclude, _ => ExpectingPath::InPath };
        let before_saw = matches!(st, ExpectingPath::SawInclude);
        let before_ready = matches!(st, ExpectingPath::Ready);
        let k = match vk::any_u8_in(0, 4) { 0 => Kind::IncludeKw, 1 => Kind::LParen, 2 => Kind::Whitespace, 3 => Kind::Path, _ => Kind::Ident };
        st.transition(k);
        assert!(st.in_path() == (before_saw && k == Kind::LParen), "VK_ASSERT path_entered_only_after_include_paren");
        if before_ready && k == Kind::IncludeKw { assert!(matches!(st, ExpectingPath::SawInclude), "VK_ASSERT include_keyword_arms_the_path_state"); }
        vk_cover!(st.in_path(), "path state reachable");
    }
}
