// C08(b) — CoordConverter: design shapes concrete (catalog), user values and probes symbolic on the k/4 grid.
#[cfg(any(kani, verif_replay))]
mod verif_proofs {
    use super::*;
    use verif_shim::vk;
    use verif_shim::vk_cover;

    fn g() -> f64 { vk::grid(-8, 8, 4.0) }

    /// reference normalization of a design value for a concrete design shape
    fn ref_norm(d: f64, dmin: f64, ddef: f64, dmax: f64) -> f64 {
        if d == ddef { 0.0 }
        else if d < ddef { if d <= dmin { -1.0 + (d - dmin) } else { -1.0 + (d - dmin) / (ddef - dmin) } }
        else if d >= dmax { 1.0 + (d - dmax) } else { (d - ddef) / (dmax - ddef) }
    }

    /// shared body: strictly increasing symbolic user values for the concrete `design` shape
    fn converter_facts<const N: usize>(design: [f64; N], default_idx: usize) {
        let mut order = [0usize; N];
        let mut i = 0;
        while i < N { order[i] = i; i += 1; }
        converter_facts_listed(design, default_idx, order);
    }

    /// `design`/`default_idx` describe the axis in ascending order; `order` is the order in which the mapping
    /// points are LISTED in the source (CoordConverter::new must not depend on it)
    fn converter_facts_listed<const N: usize>(design: [f64; N], default_idx: usize, order: [usize; N]) {
        let mut u = [0.0f64; N];
        let mut i = 0;
        while i < N { u[i] = g(); if i > 0 { vk::assume(u[i - 1] < u[i]); } i += 1; }
        let mut mappings = Vec::new();
        let mut listed_default = 0;
        i = 0;
        while i < N {
            mappings.push((UserCoord::new(u[order[i]]), DesignCoord::new(design[order[i]])));
            if order[i] == default_idx { listed_default = i; }
            i += 1;
        }
        let c = CoordConverter::new(mappings, listed_default).unwrap();
        let (mut dmin, mut dmax) = (design[0], design[0]);
        i = 0;
        while i < N { if design[i] < dmin { dmin = design[i]; } if design[i] > dmax { dmax = design[i]; } i += 1; }
        let ddef = design[default_idx];
        // every node: user -> design exact, user -> normalized is the design normalization of that node
        i = 0;
        while i < N {
            // first-duplicate rule only matters for equal user values, which are excluded (strictly increasing)
            assert!(UserCoord::new(u[i]).to_design(&c).to_f64() == design[i], "VK_ASSERT user_node_maps_to_its_design_value");
            let n = UserCoord::new(u[i]).to_normalized(&c).to_f64();
            assert!(n == ref_norm(design[i], dmin, ddef, dmax), "VK_ASSERT node_normalizes_by_design_normalization");
            i += 1;
        }
        assert!(UserCoord::new(u[default_idx]).to_normalized(&c).to_f64() == 0.0, "VK_ASSERT default_normalizes_to_zero");
        assert!(DesignCoord::new(dmin).to_normalized(&c).to_f64() == if dmin < ddef { -1.0 } else { 0.0 }, "VK_ASSERT design_min_normalizes_to_minus_one");
        assert!(DesignCoord::new(dmax).to_normalized(&c).to_f64() == if dmax > ddef { 1.0 } else { 0.0 }, "VK_ASSERT design_max_normalizes_to_plus_one");
        assert!(NormalizedCoord::new(0.0).to_design(&c).to_f64() == ddef, "VK_ASSERT zero_denormalizes_to_default");
        // any user coordinate inside the user range normalizes into the hull of the node normalizations
        let x = g();
        vk::assume(x >= u[0] && x <= u[N - 1]);
        let n = UserCoord::new(x).to_normalized(&c).to_f64();
        let (mut nlo, mut nhi) = (f64::MAX, f64::MIN);
        i = 0;
        while i < N { let r = ref_norm(design[i], dmin, ddef, dmax); if r < nlo { nlo = r; } if r > nhi { nhi = r; } i += 1; }
        assert!(n >= nlo && n <= nhi, "VK_ASSERT in_range_user_value_normalizes_within_node_hull");
        vk_cover!(N == 1 || (x > u[0] && x < u[N - 1] && x != u[default_idx]), "probe strictly inside the user range");
        std::mem::forget(c);
    }

    #[cfg_attr(kani, kani::proof)]
    #[cfg_attr(kani, kani::unwind(6))]
    pub(super) fn c08_conv_2nodes_default_min() { converter_facts([0.0, 1.0], 0); }

    #[cfg_attr(kani, kani::proof)]
    #[cfg_attr(kani, kani::unwind(6))]
    pub(super) fn c08_conv_2nodes_default_max() { converter_facts([20.0, 90.0], 1); }

    #[cfg_attr(kani, kani::proof)]
    #[cfg_attr(kani, kani::unwind(6))]
    pub(super) fn c08_conv_3nodes_default_mid() { converter_facts([100.0, 400.0, 900.0], 1); }

    #[cfg_attr(kani, kani::proof)]
    #[cfg_attr(kani, kani::unwind(6))]
    pub(super) fn c08_conv_3nodes_default_first() { converter_facts([100.0, 400.0, 900.0], 0); }

    #[cfg_attr(kani, kani::proof)]
    #[cfg_attr(kani, kani::unwind(6))]
    pub(super) fn c08_conv_3nodes_default_last() { converter_facts([-0.5, 12.25, 100.0], 2); }

    #[cfg_attr(kani, kani::proof)]
    #[cfg_attr(kani, kani::unwind(6))]
    pub(super) fn c08_conv_3nodes_flat_segment() { converter_facts([20.0, 20.0, 90.0], 0); }

    #[cfg_attr(kani, kani::proof)]
    #[cfg_attr(kani, kani::unwind(7))]
    pub(super) fn c08_conv_4nodes_default_inner() { converter_facts([-0.5, 0.0, 12.25, 100.0], 2); }

    #[cfg_attr(kani, kani::proof)]
    #[cfg_attr(kani, kani::unwind(6))]
    pub(super) fn c08_conv_1node() { converter_facts([5.0], 0); }

    // mapping points listed out of ascending order (default first, as Glyphs sources with the regular master first do)
    #[cfg_attr(kani, kani::proof)]
    #[cfg_attr(kani, kani::unwind(6))]
    pub(super) fn c08_conv_3nodes_listed_default_first() { converter_facts_listed([100.0, 400.0, 900.0], 1, [1, 0, 2]); }

    #[cfg_attr(kani, kani::proof)]
    #[cfg_attr(kani, kani::unwind(6))]
    pub(super) fn c08_conv_3nodes_listed_descending() { converter_facts_listed([-0.5, 12.25, 100.0], 0, [2, 1, 0]); }

    /// user -> design -> user returns the node (design values strictly increasing); one symbolic node index per run
    #[cfg_attr(kani, kani::proof)]
    #[cfg_attr(kani, kani::unwind(6))]
    pub(super) fn c08_conv_user_design_roundtrip_nodes() {
        let u = [g(), g(), g()];
        vk::assume(u[0] < u[1] && u[1] < u[2]);
        let d = [100.0, 400.0, 900.0];
        let c = CoordConverter::new(vec![
            (UserCoord::new(u[0]), DesignCoord::new(d[0])), (UserCoord::new(u[1]), DesignCoord::new(d[1])), (UserCoord::new(u[2]), DesignCoord::new(d[2]))], 1).unwrap();
        let i = vk::any_u8_in(0, 2) as usize;
        assert!(UserCoord::new(u[i]).to_design(&c).to_user(&c).to_f64() == u[i], "VK_ASSERT user_design_user_roundtrip_at_nodes");
        vk_cover!(i == 2 && u[0] < 0.0 && u[2] > 0.0, "last node, user range straddles zero");
        std::mem::forget(c);
    }

    /// -1 / 0 / +1 denormalize to the user minimum / default / maximum
    #[cfg_attr(kani, kani::proof)]
    #[cfg_attr(kani, kani::unwind(6))]
    pub(super) fn c08_conv_denormalize_extremes() {
        let u = [g(), g(), g()];
        vk::assume(u[0] < u[1] && u[1] < u[2]);
        let c = CoordConverter::new(vec![
            (UserCoord::new(u[0]), DesignCoord::new(100.0)), (UserCoord::new(u[1]), DesignCoord::new(400.0)), (UserCoord::new(u[2]), DesignCoord::new(900.0))], 1).unwrap();
        assert!(NormalizedCoord::new(-1.0).to_user(&c).to_f64() == u[0], "VK_ASSERT normalized_extremes_denormalize_to_user_nodes");
        assert!(NormalizedCoord::new(0.0).to_user(&c).to_f64() == u[1], "VK_ASSERT normalized_extremes_denormalize_to_user_nodes");
        assert!(NormalizedCoord::new(1.0).to_user(&c).to_f64() == u[2], "VK_ASSERT normalized_extremes_denormalize_to_user_nodes");
        vk_cover!(u[0] < 0.0 && u[2] > 0.0, "user range straddles zero");
        std::mem::forget(c);
    }

    /// a wide quarter-step grid for probes against concrete axis triples
    fn wide() -> f64 { let k = vk::any_i16(); vk::assume(k >= -4200 && k <= 4200); k as f64 / 4.0 }

    /// default_normalization(min, default, max) on a catalog of concrete triples (every coincidence case), probe symbolic:
    /// min/default/max -> -1/0/+1, in-range probe in [-1,1] with the sign of (x - default), monotone hull
    fn default_norm_facts(mn: f64, df: f64, mx: f64) {
        let c = CoordConverter::default_normalization(UserCoord::new(mn), UserCoord::new(df), UserCoord::new(mx));
        assert!(UserCoord::new(df).to_normalized(&c).to_f64() == 0.0, "VK_ASSERT default_normalizes_to_zero");
        if mn < df { assert!(UserCoord::new(mn).to_normalized(&c).to_f64() == -1.0, "VK_ASSERT user_min_normalizes_to_minus_one"); }
        if mx > df { assert!(UserCoord::new(mx).to_normalized(&c).to_f64() == 1.0, "VK_ASSERT user_max_normalizes_to_plus_one"); }
        let x = wide();
        vk::assume(x >= mn && x <= mx);
        let n = UserCoord::new(x).to_normalized(&c).to_f64();
        assert!(n >= -1.0 && n <= 1.0, "VK_ASSERT in_range_user_value_normalizes_into_unit_range");
        if x < df { assert!(n < 0.0, "VK_ASSERT below_default_is_negative"); }
        if x > df { assert!(n > 0.0, "VK_ASSERT above_default_is_positive"); }
        vk_cover!(mn == mx || (x != mn && x != df && x != mx), "probe strictly between nodes");
        std::mem::forget(c);
    }
    #[cfg_attr(kani, kani::proof)]
    #[cfg_attr(kani, kani::unwind(6))]
    pub(super) fn c08_default_normalization_3distinct() { default_norm_facts(300.0, 400.0, 700.0); }
    #[cfg_attr(kani, kani::proof)]
    #[cfg_attr(kani, kani::unwind(6))]
    pub(super) fn c08_default_normalization_default_at_min() { default_norm_facts(0.0, 0.0, 1.0); }
    #[cfg_attr(kani, kani::proof)]
    #[cfg_attr(kani, kani::unwind(6))]
    pub(super) fn c08_default_normalization_default_at_max() { default_norm_facts(-12.5, 1000.0, 1000.0); }
    #[cfg_attr(kani, kani::proof)]
    #[cfg_attr(kani, kani::unwind(6))]
    pub(super) fn c08_default_normalization_point_axis() { default_norm_facts(5.0, 5.0, 5.0); }

    /// unmapped(min, default, max): identity user<->design and the same normalization facts
    fn unmapped_facts(mn: f64, df: f64, mx: f64) {
        let c = CoordConverter::unmapped(UserCoord::new(mn), UserCoord::new(df), UserCoord::new(mx));
        assert!(UserCoord::new(df).to_normalized(&c).to_f64() == 0.0, "VK_ASSERT default_normalizes_to_zero");
        if mn < df { assert!(UserCoord::new(mn).to_normalized(&c).to_f64() == -1.0, "VK_ASSERT user_min_normalizes_to_minus_one"); }
        if mx > df { assert!(UserCoord::new(mx).to_normalized(&c).to_f64() == 1.0, "VK_ASSERT user_max_normalizes_to_plus_one"); }
        let x = wide();
        vk::assume(x >= mn && x <= mx);
        // identity up to float rounding of the lerp (a + t*(b-a) is not exact in f64: 252.25 -> 252.24999999999997)
        let y = UserCoord::new(x).to_design(&c).to_f64();
        assert!((y - x).abs() <= 1.0e-9, "VK_ASSERT unmapped_is_identity_inside_the_range");
        if x == mn || x == df || x == mx { assert!(y == x, "VK_ASSERT unmapped_is_exact_at_nodes"); }
        vk_cover!(mn == mx || (x != mn && x != df && x != mx), "probe strictly between nodes");
        std::mem::forget(c);
    }
    #[cfg_attr(kani, kani::proof)]
    #[cfg_attr(kani, kani::unwind(6))]
    pub(super) fn c08_unmapped_3distinct() { unmapped_facts(100.0, 400.0, 900.0); }
    #[cfg_attr(kani, kani::proof)]
    #[cfg_attr(kani, kani::unwind(6))]
    pub(super) fn c08_unmapped_default_at_max() { unmapped_facts(0.0, 1.0, 1.0); }

    /// normalized grid values survive the 2.14 conversion exactly (what fvar/avar/regions store)
    #[cfg_attr(kani, kani::proof)]
    #[cfg_attr(kani, kani::unwind(3))]
    pub(super) fn c08_f2dot14_exact_on_grid() {
        let v = vk::grid(-4, 4, 4.0);
        let f = NormalizedCoord::new(v).to_f2dot14();
        assert!(f.to_f32() as f64 == v, "VK_ASSERT grid_value_exact_in_f2dot14");
        assert!(NormalizedCoord::MIN.to_f2dot14().to_f32() == -1.0 && NormalizedCoord::MAX.to_f2dot14().to_f32() == 1.0, "VK_ASSERT extremes_exact_in_f2dot14");
        vk_cover!(v == 0.75, "a fractional grid value");
    }

    /// user coordinates reach fvar as 16.16 Fixed: inside the representable range the stored value is the nearest
    /// 1/65536 step (what "fvar min/default/max are the source's bounds" can mean for non-integer bounds)
    #[cfg_attr(kani, kani::proof)]
    #[cfg_attr(kani, kani::unwind(3))]
    pub(super) fn c08_user_coord_to_fixed_in_range() {
        let v = vk::finite_f64(1.0e9);
        vk::assume(v > -32768.0 && v < 32767.0);
        let f: Fixed = UserCoord::new(v).into();
        let back = f.to_f64();
        assert!((back - v).abs() <= 1.0 / 131072.0, "VK_ASSERT user_coord_stored_to_nearest_fixed_step");
        if v == v.floor() { assert!(back == v, "VK_ASSERT integer_user_coord_exact_in_fixed"); }
        vk_cover!(v != v.floor() && v > 900.0, "a fractional coordinate");
    }
}
