// C08(b) — CoordConverter: design shapes concrete (catalog), user values and probes symbolic on the k/4 grid.
#[cfg(any(kani, verif_replay))]
mod verif_proofs {
    use super::*;
    use verif_shim::vk;
    use verif_shim::vk_cover;

    fn g() -> f64 { vk::grid(-8, 8, 4.0) }

    /// reference normalization of a design value for a concrete design shape
    fn ref_norm(d: f64, dmin: f64, ddef: f64, dmax: f64) -> f64 {
        if d == ddef { 0.0 }
        else if d < ddef { if d <= dmin { -1.0 + (d - dmin) } else { -1.0 + (d - dmin) / (ddef - dmin) } }
        else if d >= dmax { 1.0 + (d - dmax) } else { (d - ddef) / (dmax - ddef) }
    }

    /// shared body: strictly increasing symbolic user values for the concrete `design` shape
    fn converter_facts<const N: usize>(design: [f64; N], default_idx: usize) {
        let mut u = [0.0f64; N];
        let mut i = 0;
        while i < N { u[i] = g(); if i > 0 { vk::assume(u[i - 1] < u[i]); } i += 1; }
        let mut mappings = Vec::new();
        i = 0;
        while i < N { mappings.push((UserCoord::new(u[i]), DesignCoord::new(design[i]))); i += 1; }
        let c = CoordConverter::new(mappings, default_idx).unwrap();
        let (mut dmin, mut dmax) = (design[0], design[0]);
        i = 0;
        while i < N { if design[i] < dmin { dmin = design[i]; } if design[i] > dmax { dmax = design[i]; } i += 1; }
        let ddef = design[default_idx];
        // every node: user -> design exact, user -> normalized is the design normalization of that node
        i = 0;
        while i < N {
            // first-duplicate rule only matters for equal user values, which are excluded (strictly increasing)
            assert!(UserCoord::new(u[i]).to_design(&c).to_f64() == design[i], "VK_ASSERT user_node_maps_to_its_design_value");
            let n = UserCoord::new(u[i]).to_normalized(&c).to_f64();
            assert!(n == ref_norm(design[i], dmin, ddef, dmax), "VK_ASSERT node_normalizes_by_design_normalization");
            i += 1;
        }
        assert!(UserCoord::new(u[default_idx]).to_normalized(&c).to_f64() == 0.0, "VK_ASSERT default_normalizes_to_zero");
        assert!(DesignCoord::new(dmin).to_normalized(&c).to_f64() == if dmin < ddef { -1.0 } else { 0.0 }, "VK_ASSERT design_min_normalizes_to_minus_one");
        assert!(DesignCoord::new(dmax).to_normalized(&c).to_f64() == if dmax > ddef { 1.0 } else { 0.0 }, "VK_ASSERT design_max_normalizes_to_plus_one");
        assert!(NormalizedCoord::new(0.0).to_design(&c).to_f64() == ddef, "VK_ASSERT zero_denormalizes_to_default");
        // any user coordinate inside the user range normalizes into the hull of the node normalizations
        let x = g();
        vk::assume(x >= u[0] && x <= u[N - 1]);
        let n = UserCoord::new(x).to_normalized(&c).to_f64();
        let (mut nlo, mut nhi) = (f64::MAX, f64::MIN);
        i = 0;
        while i < N { let r = ref_norm(design[i], dmin, ddef, dmax); if r < nlo { nlo = r; } if r > nhi { nhi = r; } i += 1; }
        assert!(n >= nlo && n <= nhi, "VK_ASSERT in_range_user_value_normalizes_within_node_hull");
        vk_cover!(N == 1 || (x > u[0] && x < u[N - 1] && x != u[default_idx]), "probe strictly inside the user range");
        std::mem::forget(c);
    }

    #[cfg_attr(kani, kani::proof)]
    #[cfg_attr(kani, kani::unwind(6))]
    pub(super) fn c08_conv_2nodes_default_min() { converter_facts([0.0, 1.0], 0); }

    #[cfg_attr(kani, kani::proof)]
    #[cfg_attr(kani, kani::unwind(6))]
    pub(super) fn c08_conv_2nodes_default_max() { converter_facts([20.0, 90.0], 1); }

    #[cfg_attr(kani, kani::proof)]
    #[cfg_attr(kani, kani::unwind(6))]
    pub(super) fn c08_conv_3nodes_default_mid() { converter_facts([100.0, 400.0, 900.0], 1); }

    #[cfg_attr(kani, kani::proof)]
    #[cfg_attr(kani, kani::unwind(6))]
    pub(super) fn c08_conv_3nodes_default_first() { converter_facts([100.0, 400.0, 900.0], 0); }

    #[cfg_attr(kani, kani::proof)]
    #[cfg_attr(kani, kani::unwind(6))]
    pub(super) fn c08_conv_3nodes_default_last() { converter_facts([-0.5, 12.25, 100.0], 2); }

    #[cfg_attr(kani, kani::proof)]
    #[cfg_attr(kani, kani::unwind(6))]
    pub(super) fn c08_conv_3nodes_flat_segment() { converter_facts([20.0, 20.0, 90.0], 0); }

    #[cfg_attr(kani, kani::proof)]
    #[cfg_attr(kani, kani::unwind(7))]
    pub(super) fn c08_conv_4nodes_default_inner() { converter_facts([-0.5, 0.0, 12.25, 100.0], 2); }

    #[cfg_attr(kani, kani::proof)]
    #[cfg_attr(kani, kani::unwind(6))]
    pub(super) fn c08_conv_1node() { converter_facts([5.0], 0); }

    /// user -> design -> user returns the node (design values strictly increasing)
    #[cfg_attr(kani, kani::proof)]
    #[cfg_attr(kani, kani::unwind(6))]
    pub(super) fn c08_conv_user_design_roundtrip_nodes() {
        let u = [g(), g(), g()];
        vk::assume(u[0] < u[1] && u[1] < u[2]);
        let d = [100.0, 400.0, 900.0];
        let c = CoordConverter::new(vec![
            (UserCoord::new(u[0]), DesignCoord::new(d[0])), (UserCoord::new(u[1]), DesignCoord::new(d[1])), (UserCoord::new(u[2]), DesignCoord::new(d[2]))], 1).unwrap();
        let mut i = 0;
        while i < 3 {
            assert!(UserCoord::new(u[i]).to_design(&c).to_user(&c).to_f64() == u[i], "VK_ASSERT user_design_user_roundtrip_at_nodes");
            assert!(DesignCoord::new(d[i]).to_user(&c).to_f64() == u[i], "VK_ASSERT design_node_maps_back_to_user_node");
            i += 1;
        }
        assert!(NormalizedCoord::new(-1.0).to_user(&c).to_f64() == u[0] && NormalizedCoord::new(1.0).to_user(&c).to_f64() == u[2], "VK_ASSERT extremes_denormalize_to_user_extremes");
        // default index out of bounds is an error, not a panic
        assert!(CoordConverter::new(vec![(UserCoord::new(u[0]), DesignCoord::new(1.0))], 1).is_err(), "VK_ASSERT default_out_of_bounds_is_an_error");
        vk_cover!(u[0] < 0.0 && u[2] > 0.0, "user range straddles zero");
        std::mem::forget(c);
    }

    /// default_normalization(min, default, max): min/default/max -> -1/0/+1, whichever of them coincide
    #[cfg_attr(kani, kani::proof)]
    #[cfg_attr(kani, kani::unwind(6))]
    pub(super) fn c08_default_normalization() {
        let (mn, df, mx) = (g(), g(), g());
        vk::assume(mn <= df && df <= mx);
        let c = CoordConverter::default_normalization(UserCoord::new(mn), UserCoord::new(df), UserCoord::new(mx));
        assert!(UserCoord::new(df).to_normalized(&c).to_f64() == 0.0, "VK_ASSERT default_normalizes_to_zero");
        if mn < df { assert!(UserCoord::new(mn).to_normalized(&c).to_f64() == -1.0, "VK_ASSERT user_min_normalizes_to_minus_one"); }
        if mx > df { assert!(UserCoord::new(mx).to_normalized(&c).to_f64() == 1.0, "VK_ASSERT user_max_normalizes_to_plus_one"); }
        let x = g();
        vk::assume(x >= mn && x <= mx);
        let n = UserCoord::new(x).to_normalized(&c).to_f64();
        assert!(n >= -1.0 && n <= 1.0, "VK_ASSERT in_range_user_value_normalizes_into_unit_range");
        if x < df { assert!(n < 0.0, "VK_ASSERT below_default_is_negative"); }
        if x > df { assert!(n > 0.0, "VK_ASSERT above_default_is_positive"); }
        vk_cover!(mn < df && df < mx && x > mn && x < df, "three distinct nodes, probe inside");
        vk_cover!(mn == df && df < mx, "default at minimum");
        vk_cover!(mn == df && df == mx, "point axis");
        std::mem::forget(c);
    }

    /// unmapped(min, default, max): identity user<->design, same normalization facts
    #[cfg_attr(kani, kani::proof)]
    #[cfg_attr(kani, kani::unwind(6))]
    pub(super) fn c08_unmapped() {
        let (mn, df, mx) = (g(), g(), g());
        vk::assume(mn <= df && df <= mx);
        let c = CoordConverter::unmapped(UserCoord::new(mn), UserCoord::new(df), UserCoord::new(mx));
        assert!(UserCoord::new(df).to_normalized(&c).to_f64() == 0.0, "VK_ASSERT default_normalizes_to_zero");
        assert!(UserCoord::new(df).to_design(&c).to_f64() == df, "VK_ASSERT unmapped_is_identity_at_default");
        if mn < df { assert!(UserCoord::new(mn).to_normalized(&c).to_f64() == -1.0, "VK_ASSERT user_min_normalizes_to_minus_one"); }
        if mx > df { assert!(UserCoord::new(mx).to_normalized(&c).to_f64() == 1.0, "VK_ASSERT user_max_normalizes_to_plus_one"); }
        vk_cover!(mn < df && df < mx, "three distinct nodes");
        vk_cover!(mn < df && df == mx, "default at maximum");
        std::mem::forget(c);
    }

    /// normalized grid values survive the 2.14 conversion exactly (what fvar/avar/regions store)
    #[cfg_attr(kani, kani::proof)]
    #[cfg_attr(kani, kani::unwind(3))]
    pub(super) fn c08_f2dot14_exact_on_grid() {
        let v = vk::grid(-4, 4, 4.0);
        let f = NormalizedCoord::new(v).to_f2dot14();
        assert!(f.to_f32() as f64 == v, "VK_ASSERT grid_value_exact_in_f2dot14");
        assert!(NormalizedCoord::MIN.to_f2dot14().to_f32() == -1.0 && NormalizedCoord::MAX.to_f2dot14().to_f32() == 1.0, "VK_ASSERT extremes_exact_in_f2dot14");
        vk_cover!(v == 0.75, "a fractional grid value");
    }
}
