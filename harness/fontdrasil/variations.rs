// C07(2) — structural half of the variation model, coordinates symbolic on the k/4 grid.
// Appended to fontdrasil/src/variations.rs by kit/overlay.py; sees the private items.
#[cfg(any(kani, verif_replay))]
mod verif_proofs {
    use super::*;
    use verif_shim::vk;
    use verif_shim::vk_cover;

    fn coord() -> f64 { vk::grid(-4, 4, 4.0) }
    fn nc(v: f64) -> NormalizedCoord { NormalizedCoord::new(v) }

    /// the region facts C07 states: min <= peak <= max inside [-1,1], never spanning zero
    fn tent_ok(t: &Tent) -> bool {
        let (mn, pk, mx) = (t.min.to_f64(), t.peak.to_f64(), t.max.to_f64());
        mn <= pk && pk <= mx && mn >= -1.0 && mx <= 1.0 && !(mn < 0.0 && mx > 0.0)
    }

    #[allow(unused_imports)]
    use std::cmp::{Ord as VkOrd, PartialEq as VkPartialEq, PartialOrd as VkPartialOrd};
    // Tag is 4 bytes compared bytewise (a memcmp loop in CBMC); the stubs compare the same 4 bytes as one u32.
    pub(super) fn tag_eq_stub(a: &Tag, b: &Tag) -> bool { u32::from_be_bytes(a.to_be_bytes()) == u32::from_be_bytes(b.to_be_bytes()) }
    pub(super) fn tag_cmp_stub(a: &Tag, b: &Tag) -> Ordering { u32::from_be_bytes(a.to_be_bytes()).cmp(&u32::from_be_bytes(b.to_be_bytes())) }
    pub(super) fn tag_pcmp_stub(a: &Tag, b: &Tag) -> Option<Ordering> { Some(tag_cmp_stub(a, b)) }

    /// H07-validate: `Tent::validate` is exactly the statement's region predicate (unconstrained finite f64 — comparisons only)
    #[cfg_attr(kani, kani::proof)]
    #[cfg_attr(kani, kani::unwind(4))]
    pub(super) fn c07_tent_validate_full_f64() {
        let (mn, pk, mx) = (vk::finite_f64(1.0e300), vk::finite_f64(1.0e300), vk::finite_f64(1.0e300));
        let t = Tent { min: nc(mn), peak: nc(pk), max: nc(mx) };
        let expect = mn <= pk && pk <= mx && !(mn < 0.0 && mx > 0.0);
        assert!(t.validate() == expect, "VK_ASSERT validate_is_region_predicate");
        // Tent::new keeps the peak and zeroes the side that would span zero
        let n = Tent::new(nc(mn), nc(pk), nc(mx));
        assert!(n.peak.to_f64() == pk, "VK_ASSERT new_keeps_peak");
        if pk > 0.0 { assert!(n.min.to_f64() == 0.0 && n.max.to_f64() == mx, "VK_ASSERT new_zeroes_min_for_positive_peak"); }
        else if pk < 0.0 { assert!(n.max.to_f64() == 0.0 && n.min.to_f64() == mn, "VK_ASSERT new_zeroes_max_for_negative_peak"); }
        else {
            // peak exactly 0: which side is zeroed is the implementation's choice (callers only build (0,0,0) there);
            // what matters is that one side is zeroed and the other kept
            let (a, b) = (n.min.to_f64(), n.max.to_f64());
            assert!((a == 0.0 && b == mx) || (b == 0.0 && a == mn), "VK_ASSERT new_zeroes_one_side_for_zero_peak");
        }
        if mn <= pk && pk <= mx { assert!(n.validate(), "VK_ASSERT new_of_ordered_triple_is_valid"); }
        vk_cover!(expect, "valid tent reachable");
        vk_cover!(!expect, "invalid tent reachable");
    }

    /// H07-tent: one tent, all four floats symbolic on the k/4 grid
    #[cfg_attr(kani, kani::proof)]
    #[cfg_attr(kani, kani::unwind(4))]
    #[cfg_attr(kani, kani::stub(<Tag as VkPartialOrd>::partial_cmp, tag_pcmp_stub))]
    #[cfg_attr(kani, kani::stub(<Tag as VkOrd>::cmp, tag_cmp_stub))]
    #[cfg_attr(kani, kani::stub(<Tag as VkPartialEq<Tag>>::eq, tag_eq_stub))]
    pub(super) fn c07_scalar_leaf() {
        let wght = Tag::new(b"wght");
        let (mn, pk, mx) = (coord(), coord(), coord());
        vk::assume(mn <= pk && pk <= mx);
        let mut r = VariationRegion::new();
        let t = Tent::new(nc(mn), nc(pk), nc(mx));
        r.insert(wght, t);
        let v = coord();
        let loc: NormalizedLocation = vec![(wght, nc(v))].into();
        let s = r.scalar_at(&loc).into_inner();
        assert!(s >= 0.0 && s <= 1.0, "VK_ASSERT scalar_in_unit_interval");
        if v == pk { assert!(s == 1.0, "VK_ASSERT scalar_one_at_peak"); }
        let (tmn, tmx) = (t.min.to_f64(), t.max.to_f64());
        if pk != 0.0 && v != pk && (v <= tmn || v >= tmx) { assert!(s == 0.0, "VK_ASSERT scalar_zero_outside_support"); }
        if pk != 0.0 && v > tmn && v < tmx { assert!(s > 0.0, "VK_ASSERT scalar_positive_inside_support"); }
        vk_cover!(s > 0.0 && s < 1.0, "fractional scalar reachable");
        vk_cover!(s == 0.0, "zero scalar reachable");
        std::mem::forget(r); std::mem::forget(loc);
    }

    /// H07-tent-invalid: a tent that fails validation is ignored (contributes factor 1), struct built directly
    #[cfg_attr(kani, kani::proof)]
    #[cfg_attr(kani, kani::unwind(4))]
    #[cfg_attr(kani, kani::stub(<Tag as VkPartialOrd>::partial_cmp, tag_pcmp_stub))]
    #[cfg_attr(kani, kani::stub(<Tag as VkOrd>::cmp, tag_cmp_stub))]
    #[cfg_attr(kani, kani::stub(<Tag as VkPartialEq<Tag>>::eq, tag_eq_stub))]
    pub(super) fn c07_scalar_invalid_tent_ignored() {
        let wght = Tag::new(b"wght");
        let (mn, pk, mx) = (coord(), coord(), coord());
        vk::assume(!(mn <= pk && pk <= mx) || (mn < 0.0 && mx > 0.0));
        let mut r = VariationRegion::new();
        r.insert(wght, Tent { min: nc(mn), peak: nc(pk), max: nc(mx) });
        let loc: NormalizedLocation = vec![(wght, nc(coord()))].into();
        let s = r.scalar_at(&loc).into_inner();
        assert!(s == 1.0, "VK_ASSERT invalid_tent_ignored");
        std::mem::forget(r); std::mem::forget(loc);
    }

    fn expect_tent(value: f64, axis_min: f64, axis_max: f64) -> (f64, f64, f64) {
        if value > 0.0 { (0.0, value, axis_max) } else if value < 0.0 { (axis_min, value, 0.0) } else { (0.0, 0.0, 0.0) }
    }

    /// H07-regions: 1 axis x (default + 2 symbolic masters)
    #[cfg_attr(kani, kani::proof)]
    #[cfg_attr(kani, kani::unwind(4))]
    #[cfg_attr(kani, kani::stub(<Tag as VkPartialOrd>::partial_cmp, tag_pcmp_stub))]
    #[cfg_attr(kani, kani::stub(<Tag as VkOrd>::cmp, tag_cmp_stub))]
    #[cfg_attr(kani, kani::stub(<Tag as VkPartialEq<Tag>>::eq, tag_eq_stub))]
    pub(super) fn c07_regions_for_1axis_3() {
        let wght = Tag::new(b"wght");
        let axis_order = vec![wght];
        let a = coord(); let b = coord();
        let mk = |v: f64| -> NormalizedLocation { vec![(wght, nc(v))].into() };
        let locations = vec![mk(0.0), mk(a), mk(b)];
        let regions = regions_for(&axis_order, &locations);
        assert!(regions.len() == 3, "VK_ASSERT one_region_per_location");
        let lo = 0.0f64.min(a).min(b);
        let hi = 0.0f64.max(a).max(b);
        let vals = [0.0, a, b];
        let mut i = 0;
        while i < 3 {
            let t = regions[i].get(&wght).unwrap();
            assert!(tent_ok(t), "VK_ASSERT region_tent_valid");
            let e = expect_tent(vals[i], lo, hi);
            assert!(t.min.to_f64() == e.0 && t.peak.to_f64() == e.1 && t.max.to_f64() == e.2, "VK_ASSERT region_tent_is_axis_extreme_on_master_side");
            i += 1;
        }
        assert!(regions[0].is_default(), "VK_ASSERT default_region_is_default");
        vk_cover!(a < 0.0 && b > 0.0, "masters on both sides");
        vk_cover!(a > 0.0 && b > a, "two masters on one side");
        std::mem::forget(regions); std::mem::forget(locations);
    }

    /// H07-regions: 2 axes x (default + 2 symbolic masters)
    #[cfg_attr(kani, kani::proof)]
    #[cfg_attr(kani, kani::unwind(4))]
    #[cfg_attr(kani, kani::stub(<Tag as VkPartialOrd>::partial_cmp, tag_pcmp_stub))]
    #[cfg_attr(kani, kani::stub(<Tag as VkOrd>::cmp, tag_cmp_stub))]
    #[cfg_attr(kani, kani::stub(<Tag as VkPartialEq<Tag>>::eq, tag_eq_stub))]
    pub(super) fn c07_regions_for_2axis_3() {
        let wght = Tag::new(b"wght");
        let wdth = Tag::new(b"wdth");
        let axis_order = vec![wght, wdth];
        let (a0, a1, b0, b1) = (coord(), coord(), coord(), coord());
        let mk = |v: f64, w: f64| -> NormalizedLocation { vec![(wght, nc(v)), (wdth, nc(w))].into() };
        let locations = vec![mk(0.0, 0.0), mk(a0, a1), mk(b0, b1)];
        let regions = regions_for(&axis_order, &locations);
        let lo = [0.0f64.min(a0).min(b0), 0.0f64.min(a1).min(b1)];
        let hi = [0.0f64.max(a0).max(b0), 0.0f64.max(a1).max(b1)];
        let vals = [[0.0, 0.0], [a0, a1], [b0, b1]];
        let tags = [wght, wdth];
        let mut i = 0;
        while i < 3 {
            let mut x = 0;
            while x < 2 {
                let t = regions[i].get(&tags[x]).unwrap();
                assert!(tent_ok(t), "VK_ASSERT region_tent_valid");
                let e = expect_tent(vals[i][x], lo[x], hi[x]);
                assert!(t.min.to_f64() == e.0 && t.peak.to_f64() == e.1 && t.max.to_f64() == e.2, "VK_ASSERT region_tent_is_axis_extreme_on_master_side");
                x += 1;
            }
            i += 1;
        }
        vk_cover!(a0 != 0.0 && a1 != 0.0 && b0 == 0.0 && b1 != 0.0, "corner and on-axis master");
        std::mem::forget(regions); std::mem::forget(locations);
    }

    /// what regions_for produces for a non-default master on one axis:
    /// peak p != 0, min = axis minimum (<= min(p,0)), max = axis maximum (>= max(p,0)); Tent::new zeroes one side
    fn sym_tent() -> Tent {
        let p = coord(); let lo = coord(); let hi = coord();
        vk::assume(p != 0.0 && lo <= p && p <= hi && lo <= 0.0 && hi >= 0.0);
        Tent::new(nc(lo), nc(p), nc(hi))
    }

    fn shrunk(new: &Tent, old: &Tent) -> bool {
        new.peak == old.peak && new.min >= old.min && new.max <= old.max
    }

    /// H07-influence: the trimming step on a pair (prev, cur), 1 axis. Inductive step of the
    /// `for prev_region` loop: the trimmed tent is valid, keeps its peak, only shrinks, and the
    /// later master no longer influences the earlier master's location.
    #[cfg_attr(kani, kani::proof)]
    #[cfg_attr(kani, kani::unwind(4))]
    #[cfg_attr(kani, kani::stub(<Tag as VkPartialOrd>::partial_cmp, tag_pcmp_stub))]
    #[cfg_attr(kani, kani::stub(<Tag as VkOrd>::cmp, tag_cmp_stub))]
    #[cfg_attr(kani, kani::stub(<Tag as VkPartialEq<Tag>>::eq, tag_eq_stub))]
    pub(super) fn c07_influence_pair_1axis() {
        let wght = Tag::new(b"wght");
        let axis_order = vec![wght];
        let (pt, ct) = (sym_tent(), sym_tent());
        vk::assume(pt.peak != ct.peak);
        let mut prev = VariationRegion::new(); prev.insert(wght, pt);
        let mut cur = VariationRegion::new(); cur.insert(wght, ct);
        let regions = vec![prev, cur];
        let inf = master_influence(&axis_order, &regions);
        assert!(inf.len() == 2, "VK_ASSERT one_influence_per_region");
        let t = inf[1].get(&wght).unwrap();
        assert!(tent_ok(t), "VK_ASSERT trimmed_tent_valid");
        assert!(shrunk(t, &ct), "VK_ASSERT trimmed_tent_keeps_peak_and_only_shrinks");
        assert!(inf[0].get(&wght).unwrap() == &pt, "VK_ASSERT earlier_region_untouched");
        // the earlier master's location lies outside the open support of the trimmed region
        // (what scalar_at turns into 0 — c07_scalar_leaf), the own location is the peak (scalar 1)
        assert!(pt.peak <= t.min || pt.peak >= t.max, "VK_ASSERT later_master_has_no_influence_at_earlier_master");
        vk_cover!(t.min != ct.min || t.max != ct.max, "a region was actually trimmed");
        vk_cover!(t.min == ct.min && t.max == ct.max, "no overlap, nothing trimmed");
        std::mem::forget(regions); std::mem::forget(inf);
    }

    /// H07-influence: 2 axes, both regions active on both axes (corner / interior masters)
    #[cfg_attr(kani, kani::proof)]
    #[cfg_attr(kani, kani::unwind(4))]
    #[cfg_attr(kani, kani::stub(<Tag as VkPartialOrd>::partial_cmp, tag_pcmp_stub))]
    #[cfg_attr(kani, kani::stub(<Tag as VkOrd>::cmp, tag_cmp_stub))]
    #[cfg_attr(kani, kani::stub(<Tag as VkPartialEq<Tag>>::eq, tag_eq_stub))]
    pub(super) fn c07_influence_pair_2axis() {
        let wght = Tag::new(b"wght");
        let wdth = Tag::new(b"wdth");
        let axis_order = vec![wght, wdth];
        let (p0, p1, c0, c1) = (sym_tent(), sym_tent(), sym_tent(), sym_tent());
        vk::assume(p0.peak != c0.peak || p1.peak != c1.peak);
        let mut prev = VariationRegion::new(); prev.insert(wght, p0); prev.insert(wdth, p1);
        let mut cur = VariationRegion::new(); cur.insert(wght, c0); cur.insert(wdth, c1);
        let regions = vec![prev, cur];
        let inf = master_influence(&axis_order, &regions);
        let (t0, t1) = (inf[1].get(&wght).unwrap(), inf[1].get(&wdth).unwrap());
        assert!(tent_ok(t0) && tent_ok(t1), "VK_ASSERT trimmed_tent_valid");
        assert!(shrunk(t0, &c0) && shrunk(t1, &c1), "VK_ASSERT trimmed_tent_keeps_peak_and_only_shrinks");
        // the earlier master's location is outside the open support of the trimmed region on some axis
        let out0 = p0.peak != t0.peak && (p0.peak <= t0.min || p0.peak >= t0.max);
        let out1 = p1.peak != t1.peak && (p1.peak <= t1.min || p1.peak >= t1.max);
        assert!(out0 || out1, "VK_ASSERT later_master_has_no_influence_at_earlier_master");
        vk_cover!(t0.min != c0.min || t0.max != c0.max, "trimmed on wght");
        vk_cover!((t0.min != c0.min || t0.max != c0.max) && (t1.min != c1.min || t1.max != c1.max), "equal ratios: trimmed on both axes");
        std::mem::forget(regions); std::mem::forget(inf);
    }

    /// H07-weights: listed <=> scalar != 0, weight == scalar (two regions / locations on one axis, regions as given)
    #[cfg_attr(kani, kani::proof)]
    #[cfg_attr(kani, kani::unwind(4))]
    #[cfg_attr(kani, kani::stub(<Tag as VkPartialOrd>::partial_cmp, tag_pcmp_stub))]
    #[cfg_attr(kani, kani::stub(<Tag as VkOrd>::cmp, tag_cmp_stub))]
    #[cfg_attr(kani, kani::stub(<Tag as VkPartialEq<Tag>>::eq, tag_eq_stub))]
    pub(super) fn c07_delta_weights_pair() {
        let wght = Tag::new(b"wght");
        let mk = |v: f64| -> NormalizedLocation { vec![(wght, nc(v))].into() };
        let t1 = sym_tent();
        let mut r1 = VariationRegion::new(); r1.insert(wght, t1);
        let mut r2 = VariationRegion::new(); r2.insert(wght, Tent::zeroes());
        let l2 = coord();
        let locations = vec![mk(t1.peak.to_f64()), mk(l2)];
        let influence = vec![r1, r2];
        let w = delta_weights(&locations, &influence);
        assert!(w.len() == 2 && w[0].is_empty(), "VK_ASSERT first_has_no_influencers");
        let s = influence[0].scalar_at(&locations[1]);
        if s == ZERO {
            assert!(w[1].is_empty(), "VK_ASSERT zero_scalar_not_listed");
        } else {
            assert!(w[1].len() == 1 && w[1][0] == (0usize, s), "VK_ASSERT nonzero_scalar_listed_with_weight");
        }
        vk_cover!(s != ZERO && s != ONE, "a partially influencing earlier master");
        vk_cover!(s == ZERO, "a non-influencing earlier master");
        std::mem::forget(w); std::mem::forget(locations); std::mem::forget(influence);
    }
}
