// C19 — WidthClass::try_from is total: every u16 is either a width class or an Err, in every profile.
#[cfg(any(kani, verif_replay))]
mod verif_proofs {
    use super::*;
    use verif_shim::vk;
    use verif_shim::vk_cover;

    #[cfg_attr(kani, kani::proof)]
    #[cfg_attr(kani, kani::unwind(12))]
    #[cfg_attr(kani, kani::stub(alloc::fmt::format, vk::fmt_stub))]
    pub(super) fn c19_width_class_total() {
        let v = vk::any_u16();
        let r = WidthClass::try_from(v);
        assert!(r.is_ok() == (v >= 1 && v <= 9), "VK_ASSERT width_class_ok_iff_1_to_9");
        if let Ok(w) = &r { assert!(*w as u16 == v, "VK_ASSERT width_class_value_preserved"); }
        vk_cover!(v == 0, "zero explored");
        vk_cover!(v == 9, "largest class");
        std::mem::forget(r);
    }
}
