// C02 — the access-rule matcher that both the scheduler's launch test and the ACL panics are built on.
// Instantiation verified: I = TestId (two payload-free variants and one u8-payload variant).
#[cfg(any(kani, verif_replay))]
mod verif_proofs {
    use super::*;
    use verif_shim::vk;
    use verif_shim::vk_cover;

    #[derive(Debug, Clone, PartialEq, Eq, Hash)]
    pub(super) enum TestId { A, B, C(u8) }
    impl Identifier for TestId {
        fn discriminant(&self) -> IdentifierDiscriminant { match self { TestId::A => "A", TestId::B => "B", TestId::C(_) => "C" } }
    }
    fn any_id() -> TestId {
        match vk::any_u8_in(0, 2) { 0 => TestId::A, 1 => TestId::B, _ => TestId::C(vk::any_u8_in(0, 2)) }
    }
    fn same_variant(a: &TestId, b: &TestId) -> bool {
        matches!((a, b), (TestId::A, TestId::A) | (TestId::B, TestId::B) | (TestId::C(_), TestId::C(_)))
    }

    /// every constructor: check(id) <=> id matches by equality (Specific) or by variant (Variant); None/Unknown admit nothing, All everything
    #[cfg_attr(kani, kani::proof)]
    #[cfg_attr(kani, kani::unwind(6))]
    pub(super) fn c02_access_check_leaf() {
        let (x, q) = (any_id(), any_id());
        assert!(Access::SpecificInstanceOfVariant(x.clone()).check(&q) == (x == q), "VK_ASSERT specific_matches_by_equality");
        assert!(Access::Variant(x.clone()).check(&q) == same_variant(&x, &q), "VK_ASSERT variant_matches_by_discriminant");
        assert!(!Access::<TestId>::Unknown.check(&q), "VK_ASSERT unknown_admits_nothing");
        assert!(!Access::<TestId>::None.check(&q), "VK_ASSERT none_admits_nothing");
        assert!(Access::<TestId>::All.check(&q), "VK_ASSERT all_admits_everything");
        vk_cover!(same_variant(&x, &q) && x != q, "same variant, different instance");
        std::mem::forget(x); std::mem::forget(q);
    }

    /// the builder result admits exactly the union of what was added (3 additions, variant/specific chosen symbolically)
    #[cfg_attr(kani, kani::proof)]
    #[cfg_attr(kani, kani::unwind(6))]
    pub(super) fn c02_access_builder_union_3() {
        let ids = [any_id(), any_id(), any_id()];
        let var = [vk::any_bool(), vk::any_bool(), vk::any_bool()];
        let mut b = AccessBuilder::<TestId>::new();
        let mut i = 0;
        while i < 3 {
            b = if var[i] { b.variant(ids[i].clone()) } else { b.specific_instance(ids[i].clone()) };
            i += 1;
        }
        let acc = b.build();
        let q = any_id();
        let mut expect = false;
        i = 0;
        while i < 3 { expect = expect || if var[i] { same_variant(&ids[i], &q) } else { ids[i] == q }; i += 1; }
        assert!(acc.check(&q) == expect, "VK_ASSERT builder_admits_exactly_the_union");
        vk_cover!(expect && !var[0] && !var[1] && !var[2], "admitted through a specific entry");
        vk_cover!(!expect, "rejected id");
        std::mem::forget(acc); std::mem::forget(q);
    }

    /// builder with one and two additions (no Set / first Set), and All is absorbing
    #[cfg_attr(kani, kani::proof)]
    #[cfg_attr(kani, kani::unwind(6))]
    pub(super) fn c02_access_builder_small() {
        let (x, y, q) = (any_id(), any_id(), any_id());
        let (vx, vy) = (vk::any_bool(), vk::any_bool());
        let one = if vx { AccessBuilder::<TestId>::new().variant(x.clone()) } else { AccessBuilder::<TestId>::new().specific_instance(x.clone()) }.build();
        let ex = if vx { same_variant(&x, &q) } else { x == q };
        assert!(one.check(&q) == ex, "VK_ASSERT single_entry_builder");
        let b1 = if vx { AccessBuilder::<TestId>::new().variant(x.clone()) } else { AccessBuilder::<TestId>::new().specific_instance(x.clone()) };
        let two = if vy { b1.variant(y.clone()) } else { b1.specific_instance(y.clone()) }.build();
        let ey = if vy { same_variant(&y, &q) } else { y == q };
        assert!(two.check(&q) == (ex || ey), "VK_ASSERT two_entry_builder_keeps_the_first_entry");
        assert!(!AccessBuilder::<TestId>::new().build().check(&q), "VK_ASSERT empty_builder_admits_nothing");
        vk_cover!(ex && !ey, "admitted by the first entry only");
        std::mem::forget(one); std::mem::forget(two);
    }

    #[derive(Debug)]
    struct TestWork { id: TestId, also: [Option<TestId>; 2] }
    impl Work<(), TestId, ()> for TestWork {
        fn id(&self) -> TestId { self.id.clone() }
        fn also_completes(&self) -> Vec<TestId> { self.also.iter().flatten().cloned().collect() }
        fn exec(&self, _c: &()) -> Result<(), ()> { Ok(()) }
    }

    /// default write access: exactly the work's own id plus what it also completes
    #[cfg_attr(kani, kani::proof)]
    #[cfg_attr(kani, kani::unwind(6))]
    pub(super) fn c02_default_write_access() {
        let w = TestWork { id: any_id(), also: [if vk::any_bool() { Some(any_id()) } else { None }, if vk::any_bool() { Some(any_id()) } else { None }] };
        let acc = w.write_access();
        let q = any_id();
        let expect = q == w.id || w.also[0].as_ref() == Some(&q) || w.also[1].as_ref() == Some(&q);
        assert!(acc.check(&q) == expect, "VK_ASSERT default_write_access_is_own_id_plus_also_completes");
        assert!(!w.read_access().check(&q), "VK_ASSERT default_read_access_is_none");
        vk_cover!(expect && q != w.id, "admitted through also_completes");
        std::mem::forget(acc); std::mem::forget(w);
    }

    /// the ACL assertion does not fire for an admitted id
    #[cfg_attr(kani, kani::proof)]
    #[cfg_attr(kani, kani::unwind(6))]
    pub(super) fn c02_acl_silent_when_admitted() {
        let (x, y, q) = (any_id(), any_id(), any_id());
        let read = AccessBuilder::<TestId>::new().variant(x.clone()).specific_instance(y.clone()).build();
        vk::assume(same_variant(&x, &q) || y == q);
        let acl = AccessControlList::read_write(read, Access::None);
        acl.assert_read_access(&q);
        acl.assert_read_access_to_any(&[any_id(), q.clone()]);
        vk_cover!(y == q && !same_variant(&x, &q), "admitted by the specific entry only");
        std::mem::forget(acl);
    }

    /// ... and fires for every id that is not admitted
    #[cfg_attr(kani, kani::proof)]
    #[cfg_attr(kani, kani::should_panic)]
    #[cfg_attr(kani, kani::unwind(6))]
    pub(super) fn c02_acl_panics_when_not_admitted() {
        let (x, q) = (any_id(), any_id());
        vk::assume(x != q);
        let acl = AccessControlList::read_write(Access::None, Access::SpecificInstanceOfVariant(x));
        acl.assert_write_access(&q);
        // reaching this line means an unauthorised write went unnoticed
        std::mem::forget(acl);
    }
}
