// C08(a) — piecewise-linear map kernels, all values symbolic on the k/4 grid.
#[cfg(any(kani, verif_replay))]
mod verif_proofs {
    use super::*;
    use verif_shim::vk;
    use verif_shim::vk_cover;

    fn g() -> f64 { vk::grid(-8, 8, 4.0) }
    fn of(v: f64) -> OrderedFloat<f64> { OrderedFloat(v) }

    /// 3 nodes built directly (sorted `from`, duplicates allowed), probe symbolic: node-exact with the
    /// first-duplicate rule (ufo2ft #978), fontTools offset rule outside, hull inside; lerp's assert unreachable.
    #[cfg_attr(kani, kani::proof)]
    #[cfg_attr(kani, kani::unwind(5))]
    pub(super) fn c08_plm_map_3nodes() {
        let f = [g(), g(), g()];
        let t = [g(), g(), g()];
        vk::assume(f[0] <= f[1] && f[1] <= f[2]);
        let m = PiecewiseLinearMap { from: vec![of(f[0]), of(f[1]), of(f[2])], to: vec![of(t[0]), of(t[1]), of(t[2])] };
        let x = g();
        let y = m.map(of(x)).into_inner();
        if x == f[0] { assert!(y == t[0], "VK_ASSERT node_exact_first_duplicate"); }
        else if x == f[1] { assert!(y == t[1], "VK_ASSERT node_exact_first_duplicate"); }
        else if x == f[2] { assert!(y == t[2], "VK_ASSERT node_exact_first_duplicate"); }
        else if x < f[0] { assert!(y == x + t[0] - f[0], "VK_ASSERT below_range_keeps_offset"); }
        else if x > f[2] { assert!(y == x + t[2] - f[2], "VK_ASSERT above_range_keeps_offset"); }
        else {
            let (lo, hi) = if x < f[1] { (t[0].min(t[1]), t[0].max(t[1])) } else { (t[1].min(t[2]), t[1].max(t[2])) };
            assert!(y >= lo && y <= hi, "VK_ASSERT interpolated_value_within_neighbouring_nodes");
        }
        vk_cover!(x > f[0] && x < f[1] && y != t[0] && y != t[1], "strictly interpolated value");
        vk_cover!(f[0] == f[1] && x == f[0] && t[0] != t[1], "duplicate from-node hit");
        std::mem::forget(m);
    }

    /// monotone: non-decreasing `to` gives a non-decreasing map (two probes, 2 nodes + outside ranges)
    #[cfg_attr(kani, kani::proof)]
    #[cfg_attr(kani, kani::unwind(5))]
    pub(super) fn c08_plm_map_monotone_2nodes() {
        let f = [g(), g()];
        let t = [g(), g()];
        vk::assume(f[0] < f[1] && t[0] <= t[1]);
        let m = PiecewiseLinearMap { from: vec![of(f[0]), of(f[1])], to: vec![of(t[0]), of(t[1])] };
        let (x1, x2) = (g(), g());
        vk::assume(x1 <= x2);
        let (y1, y2) = (m.map(of(x1)).into_inner(), m.map(of(x2)).into_inner());
        assert!(y1 <= y2, "VK_ASSERT map_is_monotone");
        vk_cover!(x1 > f[0] && x2 < f[1] && x1 < x2, "both probes strictly inside");
        std::mem::forget(m);
    }

    /// `new` sorts pairs and keeps them paired; `reverse` swaps the roles; reverse(map(x)) == x at nodes of strictly monotone maps
    #[cfg_attr(kani, kani::proof)]
    #[cfg_attr(kani, kani::unwind(5))]
    pub(super) fn c08_plm_new_reverse_2nodes() {
        let (a, b) = ((g(), g()), (g(), g()));
        let m = PiecewiseLinearMap::new(vec![(of(a.0), of(a.1)), (of(b.0), of(b.1))]);
        assert!(m.len() == 2 && m.from[0] <= m.from[1], "VK_ASSERT new_sorts_from");
        let keeps = (m.from[0].0 == a.0 && m.to[0].0 == a.1 && m.from[1].0 == b.0 && m.to[1].0 == b.1)
            || (m.from[0].0 == b.0 && m.to[0].0 == b.1 && m.from[1].0 == a.0 && m.to[1].0 == a.1);
        assert!(keeps, "VK_ASSERT new_keeps_pairs_together");
        let r = m.reverse();
        assert!(r.len() == 2 && r.from[0] <= r.from[1], "VK_ASSERT reverse_sorts_from");
        if a.0 < b.0 && a.1 < b.1 {
            assert!(r.map(m.map(of(a.0))).0 == a.0 && r.map(m.map(of(b.0))).0 == b.0, "VK_ASSERT reverse_inverts_at_nodes");
            assert!(r.from[0].0 == a.1 && r.to[0].0 == a.0, "VK_ASSERT reverse_swaps_from_and_to");
        }
        vk_cover!(a.0 > b.0, "input out of order");
        vk_cover!(a.0 < b.0 && a.1 < b.1, "strictly monotone map");
        std::mem::forget(m); std::mem::forget(r);
    }
}
