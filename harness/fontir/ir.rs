// C10 — anchor-name classification (the function every mark/base/ligature decision keys on).
#[cfg(any(kani, verif_replay))]
mod verif_proofs {
    use super::*;
    use verif_shim::vk;
    use verif_shim::vk_cover;

    fn ch() -> u8 { [b'_', b'a', b'0', b'1', b'2'][vk::any_u8_in(0, 4) as usize] }
    fn digit(c: u8) -> bool { c >= b'0' && c <= b'9' }

    /// every 3-byte name over {_, a, 0, 1, 2}: classification agrees with the ufo2ft rules, written out independently
    #[cfg_attr(kani, kani::proof)]
    #[cfg_attr(kani, kani::unwind(8))]
    pub(super) fn c10_anchor_kind_len3() {
        let b = [ch(), ch(), ch()];
        let s = unsafe { std::str::from_utf8_unchecked(&b) };
        let r = AnchorKind::new(s);
        if b[0] == b'_' {
            if digit(b[1]) && digit(b[2]) {
                let idx = (b[1] - b'0') as usize * 10 + (b[2] - b'0') as usize;
                if idx == 0 { assert!(matches!(r, Err(BadAnchorReason::ZeroIndex)), "VK_ASSERT component_marker_zero_is_an_error"); }
                else { assert!(matches!(r, Ok(AnchorKind::ComponentMarker(n)) if n == idx), "VK_ASSERT underscore_number_is_a_component_marker"); }
            } else if b[1] == b'_' && digit(b[2]) {
                assert!(matches!(r, Err(BadAnchorReason::NumberedMarkAnchor)), "VK_ASSERT numbered_mark_anchor_is_an_error");
            } else {
                match &r { Ok(AnchorKind::Mark(g)) => assert!(g.as_bytes() == &b[1..], "VK_ASSERT mark_group_is_the_name_without_underscore"),
                           _ => assert!(false, "VK_ASSERT underscore_name_is_a_mark") }
            }
        } else if b[1] == b'_' && digit(b[2]) {
            let idx = (b[2] - b'0') as usize;
            if idx == 0 { assert!(matches!(r, Err(BadAnchorReason::ZeroIndex)), "VK_ASSERT ligature_index_zero_is_an_error"); }
            else {
                match &r { Ok(AnchorKind::Ligature { group_name, index }) => assert!(*index == idx && group_name.as_bytes() == &b[..1], "VK_ASSERT ligature_group_and_index"),
                           _ => assert!(false, "VK_ASSERT name_underscore_number_is_a_ligature_anchor") }
            }
        } else {
            match &r { Ok(AnchorKind::Base(g)) => assert!(g.as_bytes() == &b[..], "VK_ASSERT base_group_is_the_whole_name"),
                       _ => assert!(false, "VK_ASSERT other_names_are_base_anchors") }
        }
        vk_cover!(matches!(r, Ok(AnchorKind::Ligature { .. })), "a ligature anchor");
        vk_cover!(matches!(r, Ok(AnchorKind::Mark(_))), "a mark anchor");
        vk_cover!(matches!(r, Err(_)), "a rejected name");
        std::mem::forget(r);
    }

    fn group2() -> [u8; 2] { [[b'a', b'b'][vk::any_u8_in(0, 1) as usize], [b'a', b'b', b'1'][vk::any_u8_in(0, 2) as usize]] }

    /// a mark anchor `_g`, the base anchor `g` and the ligature anchor `g_1` carry the same group `g`, so they meet
    /// (one harness per form: three calls in one harness exhaust 12 GB)
    #[cfg_attr(kani, kani::proof)]
    #[cfg_attr(kani, kani::unwind(8))]
    pub(super) fn c10_group_of_mark_anchor() {
        let g = group2();
        let name = [b'_', g[0], g[1]];
        let r = AnchorKind::new(unsafe { std::str::from_utf8_unchecked(&name) });
        match &r { Ok(AnchorKind::Mark(m)) => assert!(m.as_bytes() == &g[..], "VK_ASSERT mark_anchor_carries_group_g"), _ => assert!(false, "VK_ASSERT underscore_g_is_a_mark") }
        vk_cover!(g[1] == b'1', "group name ending in a digit");
        std::mem::forget(r);
    }
    #[cfg_attr(kani, kani::proof)]
    #[cfg_attr(kani, kani::unwind(8))]
    pub(super) fn c10_group_of_base_anchor() {
        let g = group2();
        let r = AnchorKind::new(unsafe { std::str::from_utf8_unchecked(&g) });
        match &r { Ok(AnchorKind::Base(m)) => assert!(m.as_bytes() == &g[..], "VK_ASSERT base_anchor_carries_group_g"), _ => assert!(false, "VK_ASSERT g_is_a_base") }
        vk_cover!(g[1] == b'1', "group name ending in a digit");
        std::mem::forget(r);
    }
    #[cfg_attr(kani, kani::proof)]
    #[cfg_attr(kani, kani::unwind(8))]
    pub(super) fn c10_group_of_ligature_anchor() {
        let g = group2();
        let name = [g[0], g[1], b'_', [b'1', b'2'][vk::any_u8_in(0, 1) as usize]];
        let r = AnchorKind::new(unsafe { std::str::from_utf8_unchecked(&name) });
        match &r { Ok(AnchorKind::Ligature { group_name, index }) => assert!(group_name.as_bytes() == &g[..] && *index == (name[3] - b'0') as usize, "VK_ASSERT ligature_anchor_carries_group_g"),
                   _ => assert!(false, "VK_ASSERT g_underscore_n_is_a_ligature_anchor") }
        vk_cover!(g[1] == b'1' && name[3] == b'2', "group name ending in a digit, second component");
        std::mem::forget(r);
    }

    /// caret / cursive names
    #[cfg_attr(kani, kani::proof)]
    #[cfg_attr(kani, kani::unwind(10))]
    pub(super) fn c10_caret_and_cursive_names() {
        let d = [b'0', b'1', b'2', b'a'][vk::any_u8_in(0, 3) as usize];
        let v = vk::any_bool();
        let caret = [b'c', b'a', b'r', b'e', b't', b'_', d];
        let vcaret = [b'v', b'c', b'a', b'r', b'e', b't', b'_', d];
        let r = if v { AnchorKind::new(unsafe { std::str::from_utf8_unchecked(&vcaret) }) } else { AnchorKind::new(unsafe { std::str::from_utf8_unchecked(&caret) }) };
        if d == b'0' { assert!(matches!(r, Err(BadAnchorReason::ZeroIndex)), "VK_ASSERT caret_zero_is_an_error"); }
        else {
            let idx = if digit(d) { (d - b'0') as usize } else { 1 };
            if v { assert!(matches!(r, Ok(AnchorKind::VCaret(n)) if n == idx), "VK_ASSERT vcaret_index"); }
            else { assert!(matches!(r, Ok(AnchorKind::Caret(n)) if n == idx), "VK_ASSERT caret_index"); }
        }
        assert!(matches!(AnchorKind::new("entry"), Ok(AnchorKind::CursiveEntry)) && matches!(AnchorKind::new("exit"), Ok(AnchorKind::CursiveExit)), "VK_ASSERT cursive_names");
        vk_cover!(v && d == b'2', "vertical caret 2");
        std::mem::forget(r);
    }

    // ---------------------------------------------------------------- C04: phantom points (what gvar/HVAR/VVAR advances are read from)
    fn r(v: f64) -> f64 { (v + 0.5).floor() }

    /// horizontal phantom points: origin and the rounded advance of THIS instance; vertical ones zero unless built
    #[cfg_attr(kani, kani::proof)]
    #[cfg_attr(kani, kani::unwind(6))]
    pub(super) fn c04_phantom_points_horizontal() {
        let w = vk::finite_f64(1.0e9);
        vk::assume(w >= 0.0 && w < 65535.5); // beyond u16: the recorded C19 finding
        let inst = GlyphInstance { width: w, height: Some(vk::finite_f64(1.0e6)), vertical_origin: Some(vk::finite_f64(1.0e6)), ..Default::default() };
        let gm = GlobalMetricsInstance::default();
        let mut pts = vec![Point::new(3.0, 4.0)];
        inst.add_phantom_points(&gm, false, &mut pts);
        assert!(pts.len() == 5 && pts[0] == Point::new(3.0, 4.0), "VK_ASSERT four_phantom_points_appended");
        assert!(pts[1] == Point::new(0.0, 0.0) && pts[2] == Point::new(r(w), 0.0), "VK_ASSERT horizontal_phantoms_are_origin_and_rounded_advance");
        assert!(pts[3] == Point::new(0.0, 0.0) && pts[4] == Point::new(0.0, 0.0), "VK_ASSERT vertical_phantoms_zero_when_not_built");
        vk_cover!(w > 40000.0 && w != r(w), "fractional advance above i16 range");
        std::mem::forget(pts); std::mem::forget(inst); std::mem::forget(gm);
    }

    /// vertical phantom points: top = rounded vertical origin (own, else typo ascender), bottom = top - rounded height
    /// (own, else typo ascender - descender)
    #[cfg_attr(kani, kani::proof)]
    #[cfg_attr(kani, kani::unwind(6))]
    pub(super) fn c04_phantom_points_vertical() {
        let (asc, desc) = (vk::finite_f64(1.0e6), vk::finite_f64(1.0e6));
        let (has_h, has_vo) = (vk::any_bool(), vk::any_bool());
        let (h, vo) = (vk::finite_f64(1.0e6), vk::finite_f64(1.0e6));
        let eff_h = if has_h { h } else { asc - desc };
        let eff_vo = if has_vo { vo } else { asc };
        vk::assume(eff_h >= 0.0 && eff_h < 65535.5 && eff_vo >= -32768.0 && eff_vo < 32767.5);
        let inst = GlyphInstance { width: 500.0, height: if has_h { Some(h) } else { None }, vertical_origin: if has_vo { Some(vo) } else { None }, ..Default::default() };
        let gm = GlobalMetricsInstance { os2_typo_ascender: asc.into(), os2_typo_descender: desc.into(), ..Default::default() };
        assert!(inst.height(&gm) as f64 == r(eff_h), "VK_ASSERT advance_height_is_own_or_typo_extent_rounded");
        assert!(inst.vertical_origin(&gm) as f64 == r(eff_vo), "VK_ASSERT vertical_origin_is_own_or_typo_ascender_rounded");
        let mut pts = Vec::new();
        inst.add_phantom_points(&gm, true, &mut pts);
        assert!(pts.len() == 4 && pts[1] == Point::new(500.0, 0.0), "VK_ASSERT horizontal_phantoms_are_origin_and_rounded_advance");
        assert!(pts[2] == Point::new(0.0, r(eff_vo)) && pts[3] == Point::new(0.0, r(eff_vo) - r(eff_h)), "VK_ASSERT vertical_phantoms_are_origin_and_origin_minus_height");
        vk_cover!(!has_h && !has_vo && desc < 0.0, "both fall back to the typo metrics");
        vk_cover!(has_h && has_vo, "both explicit");
        std::mem::forget(pts); std::mem::forget(inst); std::mem::forget(gm);
    }
}
