// C10 — anchors inherited from a mirrored component are renamed (top<->bottom, left<->right, entry<->exit), so that a mark
// drawn as a flipped copy of another mark attaches where its outline now is. Names concrete, mirror signs symbolic.
// (Names to which two swaps apply in sequence make the intermediate String path-dependent and did not finish in 30 min;
// for those one mirror sign is concrete per harness.)
#[cfg(any(kani, verif_replay))]
mod verif_proofs {
    use super::*;
    use verif_shim::vk;
    use verif_shim::vk_cover;

    fn sym() -> f64 { vk::finite_f64(1.0e6) }

    /// both signs symbolic: `plain` must become `flip_x` iff mirrored in x (names without top/bottom)
    fn renamed_xy(plain: &'static str, flip_x: &'static str) {
        let s = Vec2::new(sym(), sym());
        let out = rename_anchor_for_scale(&SmolStr::new_static(plain), s);
        let expect = if s.x < 0.0 { flip_x } else { plain };
        assert!(out.as_str() == expect, "VK_ASSERT mirrored_component_anchor_is_renamed");
        vk_cover!(s.x >= 0.0 && s.y < 0.0, "mirrored on the y axis only");
        vk_cover!(s.x < 0.0 && s.y >= 0.0, "mirrored on the x axis only");
        vk_cover!(s.x < 0.0 && s.y < 0.0, "rotated by 180 degrees");
        std::mem::forget(out);
    }
    /// y sign symbolic, x not mirrored
    fn renamed_y(plain: &'static str, flip_y: &'static str) {
        let s = Vec2::new(1.0, sym());
        let out = rename_anchor_for_scale(&SmolStr::new_static(plain), s);
        assert!(out.as_str() == if s.y < 0.0 { flip_y } else { plain }, "VK_ASSERT mirrored_component_anchor_is_renamed");
        vk_cover!(s.y < 0.0, "mirrored on the y axis only");
        std::mem::forget(out);
    }
    /// x sign symbolic, y not mirrored
    fn renamed_x(plain: &'static str, flip_x: &'static str) {
        let s = Vec2::new(sym(), 1.0);
        let out = rename_anchor_for_scale(&SmolStr::new_static(plain), s);
        assert!(out.as_str() == if s.x < 0.0 { flip_x } else { plain }, "VK_ASSERT mirrored_component_anchor_is_renamed");
        vk_cover!(s.x < 0.0, "mirrored on the x axis only");
        std::mem::forget(out);
    }

    macro_rules! rn {
        ($name:ident, $f:ident, $p:expr, $q:expr) => {
            #[cfg_attr(kani, kani::proof)]
            #[cfg_attr(kani, kani::unwind(12))]
            pub(super) fn $name() { $f($p, $q); }
        };
    }
    rn!(c10_rename_entry, renamed_xy, "entry", "exit");
    rn!(c10_rename_exit, renamed_xy, "exit", "entry");
    rn!(c10_rename_center, renamed_xy, "center", "center");
    rn!(c10_rename_top_y, renamed_y, "top", "bottom");
    rn!(c10_rename_mark_bottom_y, renamed_y, "_bottom", "_top");
    rn!(c10_rename_topleft_x, renamed_x, "topleft", "topright");
    rn!(c10_rename_topleft_y, renamed_y, "topleft", "bottomleft");
}
