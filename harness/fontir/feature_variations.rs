// C16 — feature-variation kernels: NBox::overlay_onto (box intersection / remainder) and Rank
// (the bit set of contributing rules that orders the output boxes).
//
// Composition argument (not solved, see DESIGN.md §5 C16): overlay_feature_variations keeps a map
// box -> rank. For every new rule box it replaces each old box by (intersection, rank | rule) and
// (remainder, rank). By the overlay_onto facts below nothing of the old box is lost, the
// intersection is exactly old ∩ new, and a remainder either does not overlap the intersection or is
// the whole old box. In the latter case a point of the intersection lies in two output boxes whose
// ranks differ by the new rule; the output is therefore sorted by descending number of contributing
// rules and the first matching box wins — which is right iff the sort key is strictly monotone in
// the popcount (Rank harnesses) and the rank arithmetic agrees with plain big-integer arithmetic.
#[cfg(any(kani, verif_replay))]
mod verif_proofs {
    use super::*;
    use verif_shim::vk;
    use verif_shim::vk_cover;

    #[allow(unused_imports)]
    use std::cmp::{Ord as VkOrd, Ordering, PartialEq as VkPartialEq, PartialOrd as VkPartialOrd};
    // Tag is 4 bytes compared bytewise (a memcmp loop in CBMC); the stubs compare the same 4 bytes as one u32.
    pub(super) fn tag_eq_stub(a: &Tag, b: &Tag) -> bool { u32::from_be_bytes(a.to_be_bytes()) == u32::from_be_bytes(b.to_be_bytes()) }
    pub(super) fn tag_cmp_stub(a: &Tag, b: &Tag) -> Ordering { u32::from_be_bytes(a.to_be_bytes()).cmp(&u32::from_be_bytes(b.to_be_bytes())) }
    pub(super) fn tag_pcmp_stub(a: &Tag, b: &Tag) -> Option<Ordering> { Some(tag_cmp_stub(a, b)) }

    fn coord() -> NormalizedCoord { NormalizedCoord::new(vk::grid(-4, 4, 4.0)) }
    /// half-step probe points so that open/closed edges are exercised
    fn probe() -> NormalizedCoord { NormalizedCoord::new(vk::grid(-8, 8, 8.0)) }

    const TAGS: [[u8; 4]; 2] = [*b"wght", *b"wdth"];

    /// a box constraining the axes in `mask` (bit i = axis i), bounds symbolic with lo < hi
    fn sbox(mask: u8) -> NBox {
        let mut b = NBox::default();
        let mut i = 0;
        while i < 2 {
            if mask >> i & 1 == 1 {
                let (lo, hi) = (coord(), coord());
                vk::assume(lo < hi);
                b.insert(Tag::new(&TAGS[i]), Some(lo), Some(hi));
            }
            i += 1;
        }
        b
    }

    fn contains(b: &NBox, p: &[NormalizedCoord; 2], axes: usize) -> bool {
        let mut i = 0;
        while i < axes {
            let (lo, hi) = b.get(Tag::new(&TAGS[i]));
            if !(lo <= p[i] && p[i] <= hi) { return false; }
            i += 1;
        }
        true
    }
    fn strictly_inside(b: &NBox, p: &[NormalizedCoord; 2], axes: usize) -> bool {
        let mut i = 0;
        while i < axes {
            let (lo, hi) = b.get(Tag::new(&TAGS[i]));
            if !(lo < p[i] && p[i] < hi) { return false; }
            i += 1;
        }
        true
    }

    /// the box step of the overlay for one shape (which axes each box constrains)
    fn overlay_shape(self_mask: u8, other_mask: u8, axes: usize) {
        let a = sbox(self_mask);
        let b = sbox(other_mask);
        let (i, r) = a.overlay_onto(&b);
        let p = [probe(), if axes > 1 { probe() } else { NormalizedCoord::new(0.0) }];
        let in_a = contains(&a, &p, axes);
        let in_b = contains(&b, &p, axes);
        let in_i = i.as_ref().map(|x| contains(x, &p, axes)).unwrap_or(false);
        let in_r = r.as_ref().map(|x| contains(x, &p, axes)).unwrap_or(false);
        if in_b { assert!(in_i || in_r, "VK_ASSERT nothing_of_other_is_lost"); }
        if in_i { assert!(in_a && in_b, "VK_ASSERT intersection_inside_both"); }
        if in_r { assert!(in_b, "VK_ASSERT remainder_inside_other"); }
        if in_a && in_b && i.is_some() { assert!(in_i, "VK_ASSERT intersection_is_exact"); }
        if r.is_none() && in_b { assert!(in_a, "VK_ASSERT no_remainder_means_other_inside_self"); }
        if let (Some(ib), Some(rb)) = (i.as_ref(), r.as_ref()) {
            if *rb != b {
                // the remainder was cut: it may share an edge with the intersection, never an interior point
                assert!(!(strictly_inside(ib, &p, axes) && in_r), "VK_ASSERT cut_remainder_does_not_overlap_intersection");
            }
        }
        let common = self_mask & other_mask != 0;
        // a remainder can only be cut when self constrains no axis that other leaves free (otherwise the code
        // keeps the whole of other as remainder: "extruding" from the start)
        let can_cut = common && (self_mask & !other_mask) == 0;
        vk_cover!(!can_cut || matches!((&i, &r), (Some(_), Some(rb)) if *rb != b), "remainder was cut");
        vk_cover!(!common || i.is_none(), "no intersection");
        vk_cover!(in_b, "probe inside other");
        std::mem::forget(a); std::mem::forget(b); std::mem::forget(i); std::mem::forget(r);
    }

    macro_rules! shape {
        ($name:ident, $s:expr, $o:expr, $axes:expr) => { shape!($name, $s, $o, $axes, 4); };
        ($name:ident, $s:expr, $o:expr, $axes:expr, $unwind:expr) => {
            #[cfg_attr(kani, kani::proof)]
            #[cfg_attr(kani, kani::unwind($unwind))]
            #[cfg_attr(kani, kani::stub(<Tag as VkPartialOrd>::partial_cmp, tag_pcmp_stub))]
            #[cfg_attr(kani, kani::stub(<Tag as VkOrd>::cmp, tag_cmp_stub))]
            #[cfg_attr(kani, kani::stub(<Tag as VkPartialEq<Tag>>::eq, tag_eq_stub))]
            pub(super) fn $name() { overlay_shape($s, $o, $axes); }
        };
    }
    // one axis: every shape
    shape!(c16_overlay_1ax_w_onto_w, 1, 1, 1);
    shape!(c16_overlay_1ax_w_onto_none, 1, 0, 1);
    shape!(c16_overlay_1ax_none_onto_w, 0, 1, 1);
    shape!(c16_overlay_1ax_none_onto_none, 0, 0, 1);
    // two axes: every shape in which at least one box constrains the second axis
    shape!(c16_overlay_2ax_w_onto_wd, 1, 3, 2, 4);
    shape!(c16_overlay_2ax_wd_onto_w, 3, 1, 2, 4);
    shape!(c16_overlay_2ax_wd_onto_wd, 3, 3, 2, 5);
    shape!(c16_overlay_2ax_w_onto_d, 1, 2, 2, 4);
    shape!(c16_overlay_2ax_d_onto_wd, 2, 3, 2, 4);
    shape!(c16_overlay_2ax_wd_onto_d, 3, 2, 2, 4);
    shape!(c16_overlay_2ax_wd_onto_none, 3, 0, 2, 4);
    shape!(c16_overlay_2ax_none_onto_wd, 0, 3, 2, 4);

    /// insert clamps to [-1,1] and fills missing bounds; cleanup drops exactly the full-range axes; get defaults to the full range
    #[cfg_attr(kani, kani::proof)]
    #[cfg_attr(kani, kani::unwind(4))]
    #[cfg_attr(kani, kani::stub(<Tag as VkPartialOrd>::partial_cmp, tag_pcmp_stub))]
    #[cfg_attr(kani, kani::stub(<Tag as VkOrd>::cmp, tag_cmp_stub))]
    #[cfg_attr(kani, kani::stub(<Tag as VkPartialEq<Tag>>::eq, tag_eq_stub))]
    pub(super) fn c16_nbox_insert_get_cleanup() {
        let t = Tag::new(b"wght");
        let (lo, hi) = (vk::grid(-8, 8, 4.0), vk::grid(-8, 8, 4.0));
        let (has_lo, has_hi) = (vk::any_bool(), vk::any_bool());
        let mut b = NBox::default();
        assert!(b.get(t) == (NormalizedCoord::MIN, NormalizedCoord::MAX), "VK_ASSERT unconstrained_axis_is_full_range");
        b.insert(t, if has_lo { Some(NormalizedCoord::new(lo)) } else { None }, if has_hi { Some(NormalizedCoord::new(hi)) } else { None });
        let e_lo = if has_lo { lo.max(-1.0) } else { -1.0 };
        let e_hi = if has_hi { hi.min(1.0) } else { 1.0 };
        let (g_lo, g_hi) = b.get(t);
        assert!(g_lo.to_f64() == e_lo && g_hi.to_f64() == e_hi, "VK_ASSERT insert_clamps_to_axis_range");
        b.cleanup();
        let full = e_lo == -1.0 && e_hi == 1.0;
        assert!(b.0.contains_key(&t) == !full, "VK_ASSERT cleanup_drops_only_full_range_axes");
        assert!(b.get(t) == (NormalizedCoord::new(e_lo), NormalizedCoord::new(e_hi)), "VK_ASSERT cleanup_keeps_the_region");
        vk_cover!(full, "full-range axis dropped");
        vk_cover!(!full && has_lo && lo < -1.0, "clamped lower bound");
        std::mem::forget(b);
    }

    // ---------------------------------------------------------------- Rank
    /// The Rank harnesses build ranks from raw words, most significant word first. That is an assumption about the
    /// REPRESENTATION, not about behaviour: if a refactoring changes the word order this guard makes the harnesses
    /// vacuous (reported as inconclusive) instead of raising a false alarm.
    fn repr_is_most_significant_word_first() -> bool {
        let (hi, lo) = (Rank::new(64), Rank::new(1));
        let ok = hi.0.len() == 2 && hi.0[0] == 1 && hi.0[1] == 0 && lo.0.len() == 1 && lo.0[0] == 2;
        std::mem::forget(hi); std::mem::forget(lo);
        ok
    }
    fn rank_of(words: &[u64]) -> Rank { vk::assume(repr_is_most_significant_word_first()); Rank(SmallVec::from_slice(words)) }
    /// value of a rank of <= 2 words as a plain integer (most significant word first)
    fn val(words: &[u64]) -> u128 {
        let mut v: u128 = 0;
        let mut i = 0;
        while i < words.len() { v = (v << 64) | words[i] as u128; i += 1; }
        v
    }
    fn rank_val(r: &Rank) -> u128 { val(r.0.as_slice()) }

    /// the order the output boxes are emitted in: more contributing rules first, whatever the word counts
    fn key_monotone(na: usize, nb: usize) {
        let aw = [vk::any_u64(), vk::any_u64(), vk::any_u64()];
        let bw = [vk::any_u64(), vk::any_u64(), vk::any_u64()];
        let (a, b) = (rank_of(&aw[..na]), rank_of(&bw[..nb]));
        let pa: u32 = aw[..na].iter().map(|w| w.count_ones()).sum();
        let pb: u32 = bw[..nb].iter().map(|w| w.count_ones()).sum();
        vk::assume(pa > pb);
        assert!(a.sort_key() < b.sort_key(), "VK_ASSERT more_contributing_rules_sort_first");
        vk_cover!(pa == pb + 1, "adjacent popcounts");
        std::mem::forget(a); std::mem::forget(b);
    }
    macro_rules! keyh {
        ($name:ident, $a:expr, $b:expr) => {
            #[cfg_attr(kani, kani::proof)]
            #[cfg_attr(kani, kani::unwind(5))]
            pub(super) fn $name() { key_monotone($a, $b); }
        };
    }
    keyh!(c16_rank_key_1w_1w, 1, 1);
    keyh!(c16_rank_key_1w_2w, 1, 2);
    keyh!(c16_rank_key_2w_1w, 2, 1);
    keyh!(c16_rank_key_2w_2w, 2, 2);
    keyh!(c16_rank_key_3w_1w, 3, 1);
    keyh!(c16_rank_key_1w_3w, 1, 3);
    keyh!(c16_rank_key_1w_0w, 1, 0);

    /// rank arithmetic agrees with plain integers: new, |, |=, >>1, lowest bit, zero test, equality
    fn rank_arith(na: usize, nb: usize) {
        let aw = [vk::any_u64(), vk::any_u64()];
        let bw = [vk::any_u64(), vk::any_u64()];
        let (a, b) = (rank_of(&aw[..na]), rank_of(&bw[..nb]));
        let (va, vb) = (val(&aw[..na]), val(&bw[..nb]));
        let or = &a | &b;
        assert!(rank_val(&or) == (va | vb), "VK_ASSERT bitor_is_integer_or");
        let mut c = a.clone();
        c |= &b;
        assert!(rank_val(&c) == (va | vb), "VK_ASSERT bitor_assign_is_integer_or");
        assert!((a == b) == (va == vb), "VK_ASSERT equality_ignores_leading_zero_words");
        assert!(a.is_all_zeros() == (va == 0), "VK_ASSERT zero_test");
        assert!(a.first_bit_is_set() == (va & 1 == 1), "VK_ASSERT lowest_bit");
        let mut s = a.clone();
        s.right_shift_one();
        assert!(rank_val(&s) == va >> 1, "VK_ASSERT shift_right_by_one");
        vk_cover!((na == 0 || va != 0) && (nb == 0 || vb != 0) && (va & vb) == 0, "disjoint non-empty ranks");
        std::mem::forget(a); std::mem::forget(b); std::mem::forget(or); std::mem::forget(c); std::mem::forget(s);
    }
    macro_rules! arith {
        ($name:ident, $a:expr, $b:expr) => {
            #[cfg_attr(kani, kani::proof)]
            #[cfg_attr(kani, kani::unwind(5))]
            pub(super) fn $name() { rank_arith($a, $b); }
        };
    }
    arith!(c16_rank_arith_1w_1w, 1, 1);
    arith!(c16_rank_arith_1w_2w, 1, 2);
    arith!(c16_rank_arith_2w_1w, 2, 1);
    arith!(c16_rank_arith_2w_2w, 2, 2);
    arith!(c16_rank_arith_0w_1w, 0, 1);
    arith!(c16_rank_arith_2w_0w, 2, 0);

    /// Rank::new(i) is the integer 1 << i
    #[cfg_attr(kani, kani::proof)]
    #[cfg_attr(kani, kani::unwind(5))]
    pub(super) fn c16_rank_new_is_single_bit() {
        let i = vk::any_u8_in(0, 127) as usize;
        let r = Rank::new(i);
        assert!(r.0.len() <= 2 && rank_val(&r) == 1u128 << i, "VK_ASSERT new_is_one_shifted_left");
        vk_cover!(i >= 64, "second word used");
        std::mem::forget(r);
    }
}
