// C19 / C03 — the two guards fontir computes for every glyph from its components' 2x2 transforms:
//   * has_overflowing_2x2_transforms: anything outside [-2, 2] cannot be stored as F2Dot14 -> the glyph is decomposed
//   * has_consistent_2x2_transforms: a 2x2 that differs between masters cannot be expressed by gvar -> decomposed
// (group fontir-wide: std containers of fontdrasil + fontir replaced crate-wide, indexmap left alone)
#[cfg(any(kani, verif_replay))]
mod verif_proofs {
    use super::*;
    use verif_shim::vk;
    use verif_shim::vk_cover;
    use fontdrasil::coords::NormalizedCoord;

    fn loc(v: f64) -> NormalizedLocation { vec![(Tag::new(b"wght"), NormalizedCoord::new(v))].into() }
    fn inst(base: &'static str, t: [f64; 6]) -> GlyphInstance {
        GlyphInstance { width: 600.0, components: vec![Component { base: GlyphName::new(base), transform: Affine::new(t), anchor: None }], ..Default::default() }
    }
    fn f() -> f64 { vk::finite_f64(1.0e6) }

    /// exactly the coefficients outside [-2, 2] request decomposition (the range fontbe's F2Dot14 packing relies on)
    #[cfg_attr(kani, kani::proof)]
    #[cfg_attr(kani, kani::unwind(8))]
    pub(super) fn c19_2x2_overflow_guard() {
        let t = [f(), f(), f(), f(), f(), f()];
        let mut sources: HashMap<NormalizedLocation, GlyphInstance> = HashMap::new();
        sources.insert(loc(0.0), inst("a", t));
        let got = has_overflowing_2x2_transforms(&GlyphName::new("g"), &sources);
        let out = |v: f64| v < -2.0 || v > 2.0;
        assert!(got == (out(t[0]) || out(t[1]) || out(t[2]) || out(t[3])), "VK_ASSERT overflow_guard_is_exactly_outside_minus2_plus2");
        vk_cover!(got && !out(t[0]) && !out(t[1]) && !out(t[2]), "only the last 2x2 coefficient overflows");
        vk_cover!(!got && (t[4] > 5.0 || t[5] < -5.0), "large offsets do not count");
        std::mem::forget(sources);
    }

    /// consistent <=> same base and the same four 2x2 coefficients at every master (offsets may vary)
    #[cfg_attr(kani, kani::proof)]
    #[cfg_attr(kani, kani::unwind(26))]
    pub(super) fn c03_2x2_consistency_guard() {
        let t0 = [f(), f(), f(), f(), f(), f()];
        let t1 = [f(), f(), f(), f(), f(), f()];
        let same_base = vk::any_bool();
        let mut sources: HashMap<NormalizedLocation, GlyphInstance> = HashMap::new();
        sources.insert(loc(0.0), inst("a", t0));
        sources.insert(loc(1.0), inst(if same_base { "a" } else { "b" }, t1));
        let got = has_consistent_2x2_transforms(&GlyphName::new("g"), &sources);
        let same_2x2 = t0[0] == t1[0] && t0[1] == t1[1] && t0[2] == t1[2] && t0[3] == t1[3];
        assert!(got == (same_base && same_2x2), "VK_ASSERT consistent_iff_same_base_and_same_2x2_at_every_master");
        vk_cover!(same_base && t0[0] == t1[0] && t0[1] == t1[1] && t0[2] == t1[2] && t0[3] != t1[3], "only yy differs");
        vk_cover!(got && t0[4] != t1[4], "consistent with a varying offset");
        std::mem::forget(sources);
    }

    /// a different number of components is never consistent
    #[cfg_attr(kani, kani::proof)]
    #[cfg_attr(kani, kani::unwind(8))]
    pub(super) fn c03_2x2_consistency_component_count() {
        let mut sources: HashMap<NormalizedLocation, GlyphInstance> = HashMap::new();
        sources.insert(loc(0.0), inst("a", [1.0, 0.0, 0.0, 1.0, f(), 0.0]));
        let mut two = inst("a", [1.0, 0.0, 0.0, 1.0, 0.0, 0.0]);
        two.components.push(Component { base: GlyphName::new("a"), transform: Affine::IDENTITY, anchor: None });
        sources.insert(loc(1.0), two);
        assert!(!has_consistent_2x2_transforms(&GlyphName::new("g"), &sources), "VK_ASSERT different_component_counts_are_inconsistent");
        vk_cover!(true, "reached");
        std::mem::forget(sources);
    }
}
