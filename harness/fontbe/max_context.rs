// C17 — OS/2 usMaxContext: the per-rule context length (fontTools maxContextCalc.py, the reference the source cites).
#[cfg(any(kani, verif_replay))]
mod verif_proofs {
    use super::*;
    use verif_shim::vk;
    use verif_shim::vk_cover;

    /// contextual: the input sequence; chained: input + lookahead (backtrack never counts);
    /// reverse chained single substitution: ONE input glyph + lookahead, whatever count the caller passes for the input
    #[cfg_attr(kani, kani::proof)]
    #[cfg_attr(kani, kani::unwind(3))]
    pub(super) fn c17_max_context_of_rule() {
        let (input, look) = (vk::any_u16() as usize, vk::any_u16() as usize);
        vk::assume(input + look < 65535);
        assert!(max_context_of_rule(input, look, ContextualRuleType::Contextual) as usize == input, "VK_ASSERT max_context_contextual_is_input_length");
        assert!(max_context_of_rule(input, look, ContextualRuleType::Chained) as usize == input + look, "VK_ASSERT max_context_chained_is_input_plus_lookahead");
        assert!(max_context_of_rule(input, look, ContextualRuleType::ReverseChained) as usize == 1 + look, "VK_ASSERT max_context_reverse_chained_is_one_plus_lookahead");
        vk_cover!(input > 1 && look > 0, "input count differs from 1");
    }
}
