// C19 / C04-adjacent — OS/2 metric fields: each field is the half-up rounding of ITS OWN source metric.
#[cfg(any(kani, verif_replay))]
mod verif_proofs {
    use super::*;
    use verif_shim::vk;
    use verif_shim::vk_cover;

    fn r(v: f64) -> f64 { (v + 0.5).floor() }
    fn m16() -> f64 { let v = vk::finite_f64(1.0e9); vk::assume(v >= -32768.0 && v < 32767.5); v }
    fn mu16() -> f64 { let v = vk::finite_f64(1.0e9); vk::assume(v >= 0.0 && v < 65535.5); v }

    /// seventeen metrics symbolic inside the range of their field: every OS/2 field gets its own metric, rounded half up
    #[cfg_attr(kani, kani::proof)]
    #[cfg_attr(kani, kani::unwind(3))]
    pub(super) fn c19_os2_apply_metrics() {
        let v: [f64; 15] = [m16(), m16(), m16(), m16(), m16(), m16(), m16(), m16(), m16(), m16(), m16(), m16(), m16(), m16(), m16()];
        let (wa, wd) = (mu16(), mu16());
        let gm = GlobalMetricsInstance {
            cap_height: v[0].into(), x_height: v[1].into(),
            subscript_x_size: v[2].into(), subscript_y_size: v[3].into(), subscript_x_offset: v[4].into(), subscript_y_offset: v[5].into(),
            superscript_x_size: v[6].into(), superscript_y_size: v[7].into(), superscript_x_offset: v[8].into(), superscript_y_offset: v[9].into(),
            strikeout_size: v[10].into(), strikeout_position: v[11].into(),
            os2_typo_ascender: v[12].into(), os2_typo_descender: v[13].into(), os2_typo_line_gap: v[14].into(),
            os2_win_ascent: wa.into(), os2_win_descent: wd.into(),
            ..Default::default()
        };
        let mut os2 = Os2::default();
        apply_metrics(&mut os2, &gm);
        assert!(os2.s_cap_height == Some(r(v[0]) as i16) && os2.sx_height == Some(r(v[1]) as i16), "VK_ASSERT os2_cap_and_x_height");
        assert!(os2.y_subscript_x_size as f64 == r(v[2]) && os2.y_subscript_y_size as f64 == r(v[3])
            && os2.y_subscript_x_offset as f64 == r(v[4]) && os2.y_subscript_y_offset as f64 == r(v[5]), "VK_ASSERT os2_subscript_fields");
        assert!(os2.y_superscript_x_size as f64 == r(v[6]) && os2.y_superscript_y_size as f64 == r(v[7])
            && os2.y_superscript_x_offset as f64 == r(v[8]) && os2.y_superscript_y_offset as f64 == r(v[9]), "VK_ASSERT os2_superscript_fields");
        assert!(os2.y_strikeout_size as f64 == r(v[10]) && os2.y_strikeout_position as f64 == r(v[11]), "VK_ASSERT os2_strikeout_fields");
        assert!(os2.s_typo_ascender as f64 == r(v[12]) && os2.s_typo_descender as f64 == r(v[13]) && os2.s_typo_line_gap as f64 == r(v[14]), "VK_ASSERT os2_typo_fields");
        assert!(os2.us_win_ascent as f64 == r(wa) && os2.us_win_descent as f64 == r(wd), "VK_ASSERT os2_win_fields");
        vk_cover!(v[4] != v[8] && v[2] != v[6], "sub- and superscript metrics differ");
        vk_cover!(wa > 40000.0, "win ascent beyond i16 (field is u16)");
        std::mem::forget(gm); std::mem::forget(os2);
    }

    /// a metric beyond the range of its OS/2 field must not be stored as something else
    /// (known finding on the pinned tree: it saturates; apply_metrics has no error path)
    #[cfg_attr(kani, kani::proof)]
    #[cfg_attr(kani, kani::unwind(3))]
    pub(super) fn c19_os2_metric_beyond_i16() {
        let v = vk::finite_f64(1.0e9);
        vk::assume(v >= 32767.5 || v < -32768.5);
        let gm = GlobalMetricsInstance { cap_height: v.into(), ..Default::default() };
        let mut os2 = Os2::default();
        apply_metrics(&mut os2, &gm);
        assert!(os2.s_cap_height.map(|c| (c as f64 - v).abs() <= 0.5).unwrap_or(false), "VK_ASSERT os2_metric_beyond_i16_not_clamped");
        std::mem::forget(gm); std::mem::forget(os2);
    }
}
