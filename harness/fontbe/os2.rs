// C19 / C04-adjacent — OS/2 metric fields: each field is the half-up rounding of ITS OWN source metric.
#[cfg(any(kani, verif_replay))]
mod verif_proofs {
    use super::*;
    use verif_shim::vk;
    use verif_shim::vk_cover;

    fn r(v: f64) -> f64 { (v + 0.5).floor() }
    fn m16() -> f64 { let v = vk::finite_f64(1.0e9); vk::assume(v >= -32768.0 && v < 32767.5); v }
    fn mu16() -> f64 { let v = vk::finite_f64(1.0e9); vk::assume(v >= 0.0 && v < 65535.5); v }

    /// seventeen metrics symbolic inside the range of their field: every OS/2 field gets its own metric, rounded half up
    #[cfg_attr(kani, kani::proof)]
    #[cfg_attr(kani, kani::unwind(3))]
    pub(super) fn c19_os2_apply_metrics() {
        let v: [f64; 15] = [m16(), m16(), m16(), m16(), m16(), m16(), m16(), m16(), m16(), m16(), m16(), m16(), m16(), m16(), m16()];
        let (wa, wd) = (mu16(), mu16());
        let gm = GlobalMetricsInstance {
            cap_height: v[0].into(), x_height: v[1].into(),
            subscript_x_size: v[2].into(), subscript_y_size: v[3].into(), subscript_x_offset: v[4].into(), subscript_y_offset: v[5].into(),
            superscript_x_size: v[6].into(), superscript_y_size: v[7].into(), superscript_x_offset: v[8].into(), superscript_y_offset: v[9].into(),
            strikeout_size: v[10].into(), strikeout_position: v[11].into(),
            os2_typo_ascender: v[12].into(), os2_typo_descender: v[13].into(), os2_typo_line_gap: v[14].into(),
            os2_win_ascent: wa.into(), os2_win_descent: wd.into(),
            ..Default::default()
        };
        let mut os2 = Os2::default();
        apply_metrics(&mut os2, &gm);
        assert!(os2.s_cap_height == Some(r(v[0]) as i16) && os2.sx_height == Some(r(v[1]) as i16), "VK_ASSERT os2_cap_and_x_height");
        assert!(os2.y_subscript_x_size as f64 == r(v[2]) && os2.y_subscript_y_size as f64 == r(v[3])
            && os2.y_subscript_x_offset as f64 == r(v[4]) && os2.y_subscript_y_offset as f64 == r(v[5]), "VK_ASSERT os2_subscript_fields");
        assert!(os2.y_superscript_x_size as f64 == r(v[6]) && os2.y_superscript_y_size as f64 == r(v[7])
            && os2.y_superscript_x_offset as f64 == r(v[8]) && os2.y_superscript_y_offset as f64 == r(v[9]), "VK_ASSERT os2_superscript_fields");
        assert!(os2.y_strikeout_size as f64 == r(v[10]) && os2.y_strikeout_position as f64 == r(v[11]), "VK_ASSERT os2_strikeout_fields");
        assert!(os2.s_typo_ascender as f64 == r(v[12]) && os2.s_typo_descender as f64 == r(v[13]) && os2.s_typo_line_gap as f64 == r(v[14]), "VK_ASSERT os2_typo_fields");
        assert!(os2.us_win_ascent as f64 == r(wa) && os2.us_win_descent as f64 == r(wd), "VK_ASSERT os2_win_fields");
        vk_cover!(v[4] != v[8] && v[2] != v[6], "sub- and superscript metrics differ");
        vk_cover!(wa > 40000.0, "win ascent beyond i16 (field is u16)");
        std::mem::forget(gm); std::mem::forget(os2);
    }

    /// a metric beyond the range of its OS/2 field must not be stored as something else
    /// (known finding on the pinned tree: it saturates; apply_metrics has no error path)
    #[cfg_attr(kani, kani::proof)]
    #[cfg_attr(kani, kani::unwind(3))]
    pub(super) fn c19_os2_metric_beyond_i16() {
        let v = vk::finite_f64(1.0e9);
        vk::assume(v >= 32767.5 || v < -32768.5);
        let gm = GlobalMetricsInstance { cap_height: v.into(), ..Default::default() };
        let mut os2 = Os2::default();
        apply_metrics(&mut os2, &gm);
        assert!(os2.s_cap_height.map(|c| (c as f64 - v).abs() <= 0.5).unwrap_or(false), "VK_ASSERT os2_metric_beyond_i16_not_clamped");
        std::mem::forget(gm); std::mem::forget(os2);
    }

    // ---------------------------------------------------------------------------------------------------------
    // C17 — OS/2 derived bit fields and character indices (ulUnicodeRange1-4, ulCodePageRange1-2, usFirst/LastCharIndex).
    // In the Kani overlay `HashSet` is verif_shim's array-backed set (T1 on this file, T1f on the two MiscMetadata
    // fields); in the native replay it is std's. Only the API common to both is used here.

    /// reference: linear scan of the table (concrete table, symbolic codepoint)
    fn ref_range_bit(cp: u32) -> Option<u32> {
        let mut found = None;
        let mut i = 0;
        while i < UNICODE_RANGES.len() {
            let (from, to, bit) = UNICODE_RANGES[i];
            if from <= cp && cp <= to && found.is_none() { found = Some(bit); }
            i += 1;
        }
        found
    }

    /// the table the binary search runs over is sorted, rows are disjoint and well-formed, bits < 128 (concrete facts)
    #[cfg_attr(kani, kani::proof)]
    #[cfg_attr(kani, kani::unwind(180))]
    pub(super) fn c17_os2_unicode_table_sorted_disjoint() {
        let mut i = 0;
        while i < UNICODE_RANGES.len() {
            let (from, to, bit) = UNICODE_RANGES[i];
            assert!(from <= to && bit < 128 && to <= 0x10FFFF, "VK_ASSERT os2_unicode_table_row_well_formed");
            if i + 1 < UNICODE_RANGES.len() { assert!(to < UNICODE_RANGES[i + 1].0, "VK_ASSERT os2_unicode_table_sorted_disjoint"); }
            i += 1;
        }
        vk_cover!(UNICODE_RANGES.len() > 100, "table is the real one");
    }

    /// one symbolic codepoint: exactly the bit of the row that contains it, plus bit 57 iff beyond the BMP, nothing else
    #[cfg_attr(kani, kani::proof)]
    #[cfg_attr(kani, kani::unwind(180))]
    pub(super) fn c17_os2_unicode_range_bits_of_codepoint() {
        let cp = vk::any_u32();
        vk::assume(cp <= 0x10FFFF);
        let mut set: HashSet<u32> = HashSet::new();
        add_unicode_range_bits(&mut set, cp);
        let want = ref_range_bit(cp);
        let non_bmp = cp >= 0x10000;
        if let Some(b) = want { assert!(set.contains(&b), "VK_ASSERT os2_unicode_bit_of_containing_row_set"); }
        assert!(set.contains(&57) == (non_bmp || want == Some(57)), "VK_ASSERT os2_unicode_bit57_iff_non_bmp");
        let n = (want.is_some() as usize) + ((non_bmp && want != Some(57)) as usize);
        assert!(set.len() == n, "VK_ASSERT os2_unicode_no_other_bits");
        vk_cover!(want.is_some() && non_bmp, "supplementary-plane codepoint inside a row");
        vk_cover!(want.is_none() && !non_bmp, "BMP codepoint in no row");
        vk_cover!(want == Some(9) && cp > 0x4FF, "second row of a shared bit");
        std::mem::forget(set);
    }

    fn word_bit(words: [u32; 4], bit: u32) -> bool { words[(bit / 32) as usize] >> (bit % 32) & 1 == 1 }

    /// explicitly assigned bits are packed into the four words: bit b -> word b/32, position b%32; nothing else set
    #[cfg_attr(kani, kani::proof)]
    #[cfg_attr(kani, kani::unwind(6))]
    pub(super) fn c17_os2_unicode_range_packing() {
        let (b1, b2, probe) = (vk::any_u8() as u32, vk::any_u8() as u32, vk::any_u8() as u32);
        vk::assume(b1 < 128 && b2 < 128 && probe < 128);
        let mut bits: HashSet<u32> = HashSet::new();
        bits.insert(b1); bits.insert(b2);
        let cps: HashSet<u32> = HashSet::new();
        let mut os2 = Os2::default();
        apply_unicode_range(&mut os2, Some(bits), &cps);
        let words = [os2.ul_unicode_range_1, os2.ul_unicode_range_2, os2.ul_unicode_range_3, os2.ul_unicode_range_4];
        assert!(word_bit(words, probe) == (probe == b1 || probe == b2), "VK_ASSERT os2_unicode_range_packing");
        vk_cover!(b1 == 31 && b2 == 32, "word boundary");
        vk_cover!(b1 == 127, "last bit");
        std::mem::forget(cps); std::mem::forget(os2);
    }

    /// code-page bits: packing of assigned bits into the two words
    #[cfg_attr(kani, kani::proof)]
    #[cfg_attr(kani, kani::unwind(6))]
    pub(super) fn c17_os2_codepage_range_packing() {
        let (b1, b2, probe) = (vk::any_u8() as u32, vk::any_u8() as u32, vk::any_u8() as u32);
        vk::assume(b1 < 64 && b2 < 64 && probe < 64);
        let mut bits: HashSet<u32> = HashSet::new();
        bits.insert(b1); bits.insert(b2);
        let cps: HashSet<u32> = HashSet::new();
        let mut os2 = Os2::default();
        apply_codepage_range(&mut os2, Some(bits), &cps);
        let w = [os2.ul_code_page_range_1.unwrap_or(0), os2.ul_code_page_range_2.unwrap_or(0)];
        let got = w[(probe / 32) as usize] >> (probe % 32) & 1 == 1;
        assert!(got == (probe == b1 || probe == b2), "VK_ASSERT os2_codepage_range_packing");
        assert!(os2.ul_code_page_range_1.is_some() && os2.ul_code_page_range_2.is_some(), "VK_ASSERT os2_codepage_fields_present");
        vk_cover!(b1 == 31 && b2 == 32, "word boundary");
        std::mem::forget(cps); std::mem::forget(os2);
    }

    // codepage_range_bits itself (the character match over a HashSet<char>) and apply_unicode_range without assigned bits were
    // harnessed and did not fit: 15+ min / out of memory at 8 GB even with one symbolic codepoint (DESIGN 0a round 2).

    /// usFirstCharIndex / usLastCharIndex: min and max codepoint, each capped at 0xFFFF
    #[cfg_attr(kani, kani::proof)]
    #[cfg_attr(kani, kani::unwind(6))]
    pub(super) fn c17_os2_min_max_char_index() {
        let (c1, c2, c3) = (vk::any_u32(), vk::any_u32(), vk::any_u32());
        vk::assume(c1 <= 0x10FFFF && c2 <= 0x10FFFF && c3 <= 0x10FFFF);
        let mut cps: HashSet<u32> = HashSet::new();
        cps.insert(c1); cps.insert(c2); cps.insert(c3);
        let mut os2 = Os2::default();
        apply_min_max_char_index(&mut os2, &cps);
        let lo = c1.min(c2).min(c3).min(0xFFFF) as u16;
        let hi = c1.max(c2).max(c3).min(0xFFFF) as u16;
        assert!(os2.us_first_char_index == lo && os2.us_last_char_index == hi, "VK_ASSERT os2_min_max_char_index");
        vk_cover!(c1 > 0xFFFF && c2 < 0x80 && c3 == c2, "supplementary codepoint, duplicate");
        vk_cover!(c1 > 0xFFFF && c2 > 0xFFFF && c3 > 0xFFFF, "all beyond the BMP");
        std::mem::forget(cps); std::mem::forget(os2);
    }
}
