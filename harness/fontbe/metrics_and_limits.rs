// C17 — hmtx/hhea summary computation (MetricsBuilder), and its clamped narrowing for C19.
#[cfg(any(kani, verif_replay))]
mod verif_proofs {
    use super::*;
    use verif_shim::vk;
    use verif_shim::vk_cover;

    fn clamp16(v: i32) -> i16 { if v < i16::MIN as i32 { i16::MIN } else if v > i16::MAX as i32 { i16::MAX } else { v as i16 } }

    /// n glyphs, every input symbolic; the result is recomputed from first principles
    fn metrics_builder<const N: usize>() {
        let mut adv = [0u16; N];
        let mut lsb = [0i16; N];
        let mut has = [false; N];
        let mut ext = [0i32; N];
        let mut b = MetricsBuilder::default();
        let mut i = 0;
        while i < N {
            adv[i] = vk::any_u16(); lsb[i] = vk::any_i16(); has[i] = vk::any_bool();
            ext[i] = vk::any_u16() as i32; // xMax - xMin of a glyph with contours
            b.update(adv[i], lsb[i], if has[i] { Some(ext[i]) } else { None });
            i += 1;
        }
        let m = b.build();
        // hmtx: long metrics + lsb-only run reconstruct the inputs exactly
        let n_long = m.long_metrics.len();
        assert!(n_long >= 1 && n_long + m.first_side_bearings.len() == N, "VK_ASSERT every_glyph_has_one_metric");
        let mut j = 0;
        while j < N {
            let (a, l) = if j < n_long { (m.long_metrics[j].advance, m.long_metrics[j].side_bearing) }
                         else { (m.long_metrics[n_long - 1].advance, m.first_side_bearings[j - n_long]) };
            assert!(a == adv[j], "VK_ASSERT advance_reconstructed");
            assert!(l == lsb[j], "VK_ASSERT side_bearing_reconstructed");
            j += 1;
        }
        // minimal: the run cannot be one longer
        if n_long >= 2 { assert!(m.long_metrics[n_long - 2].advance != m.long_metrics[n_long - 1].advance, "VK_ASSERT number_of_long_metrics_minimal"); }
        // hhea summary fields by a straightforward fold
        let (mut amax, mut any) = (0u16, false);
        let (mut min_lsb, mut min_rsb, mut max_ext) = (0i16, 0i16, 0i16);
        j = 0;
        while j < N {
            if adv[j] > amax { amax = adv[j]; }
            if has[j] {
                let rsb = clamp16(adv[j] as i32 - lsb[j] as i32 - ext[j]);
                let xe = clamp16(lsb[j] as i32 + ext[j]);
                if !any { min_lsb = lsb[j]; min_rsb = rsb; max_ext = xe; any = true; }
                else {
                    if lsb[j] < min_lsb { min_lsb = lsb[j]; }
                    if rsb < min_rsb { min_rsb = rsb; }
                    if xe > max_ext { max_ext = xe; }
                }
            }
            j += 1;
        }
        assert!(m.advance_max.to_u16() == amax, "VK_ASSERT advance_max_is_max");
        assert!(m.min_first_side_bearing.to_i16() == min_lsb, "VK_ASSERT min_lsb_over_nonempty_glyphs");
        assert!(m.min_second_side_bearing.to_i16() == min_rsb, "VK_ASSERT min_rsb_over_nonempty_glyphs");
        assert!(m.max_extent.to_i16() == max_ext, "VK_ASSERT max_extent_over_nonempty_glyphs");
        vk_cover!(n_long == 1, "monospaced: one long metric");
        vk_cover!(n_long == N, "no trailing run");
        vk_cover!(N == 1 || (any && !has[0]), "first glyph empty, a later one not");
        std::mem::forget(m);
    }

    #[cfg_attr(kani, kani::proof)]
    #[cfg_attr(kani, kani::unwind(5))]
    pub(super) fn c17_metrics_builder_3() { metrics_builder::<3>(); }

    #[cfg_attr(kani, kani::proof)]
    #[cfg_attr(kani, kani::unwind(6))]
    pub(super) fn c17_metrics_builder_4() { metrics_builder::<4>(); }

    #[cfg_attr(kani, kani::proof)]
    #[cfg_attr(kani, kani::unwind(3))]
    pub(super) fn c17_metrics_builder_1() { metrics_builder::<1>(); }

    /// C19: with overflow checks on, no arithmetic in update() can overflow for any inputs (bounds advance full i32 range)
    #[cfg_attr(kani, kani::proof)]
    #[cfg_attr(kani, kani::unwind(3))]
    pub(super) fn c19_metrics_update_no_overflow() {
        let mut b = MetricsBuilder::default();
        let (adv, lsb, ba) = (vk::any_u16(), vk::any_i16(), vk::any_i32());
        // a glyph's xMax - xMin is the difference of two i16 values
        vk::assume(ba >= 0 && ba <= 65535);
        b.update(adv, lsb, Some(ba));
        let m = b.build();
        // summary side bearings are documented to clamp (hhea fields are summaries, not glyph data)
        assert!(m.min_second_side_bearing.to_i16() == clamp16(adv as i32 - lsb as i32 - ba), "VK_ASSERT rsb_clamped_as_documented");
        assert!(m.max_extent.to_i16() == clamp16(lsb as i32 + ba), "VK_ASSERT extent_clamped_as_documented");
        vk_cover!(adv as i32 - lsb as i32 - ba < i16::MIN as i32, "clamp reached");
        std::mem::forget(m);
    }

    /// maxp composite maxima are accumulated per field: the running maximum of (points, contours, depth) is the field-wise
    /// maximum, not the "largest" glyph under some ordering of the triple
    #[cfg_attr(kani, kani::proof)]
    #[cfg_attr(kani, kani::unwind(3))]
    pub(super) fn c17_glyph_limits_max_per_field() {
        let a = GlyphLimits { max_points: vk::any_u16(), max_contours: vk::any_u16(), max_depth: vk::any_u16() };
        let b = GlyphLimits { max_points: vk::any_u16(), max_contours: vk::any_u16(), max_depth: vk::any_u16() };
        let m = a.max(b);
        assert!(m.max_points == a.max_points.max(b.max_points), "VK_ASSERT glyph_limits_max_points");
        assert!(m.max_contours == a.max_contours.max(b.max_contours), "VK_ASSERT glyph_limits_max_contours");
        assert!(m.max_depth == a.max_depth.max(b.max_depth), "VK_ASSERT glyph_limits_max_depth");
        vk_cover!(a.max_points > b.max_points && a.max_contours < b.max_contours && a.max_depth < b.max_depth, "maxima come from different glyphs");
    }
}
