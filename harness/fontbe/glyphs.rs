// C19 / C03(b) — numeric narrowing on the composite-glyph path of fontbe (overflow and panic checks ON).
#[cfg(any(kani, verif_replay))]
mod verif_proofs {
    use super::*;
    use verif_shim::vk;
    use verif_shim::vk_cover;

    /// component offsets: either rejected or stored exactly (ot_round = floor(x + 0.5)); never clamped
    #[cfg_attr(kani, kani::proof)]
    pub(super) fn c19_component_offset_fits_or_errs() {
        let e = vk::finite_f64(1.0e9);
        let f = vk::finite_f64(1.0e9);
        let t = Affine::new([1.0, 0.0, 0.0, 1.0, e, f]);
        if let Ok((c, _)) = create_component_ref_gid(GlyphId16::new(1), &t) {
            if let Anchor::Offset { x, y } = c.anchor {
                assert!((x as f64 - e).abs() <= 0.5, "VK_ASSERT component_offset_x_not_clamped");
                assert!((y as f64 - f).abs() <= 0.5, "VK_ASSERT component_offset_y_not_clamped");
                // C03(b): the same half-up rounding the gvar points of the component get
                assert!(x as f64 == (e + 0.5).floor() && y as f64 == (f + 0.5).floor(), "VK_ASSERT component_offset_rounds_half_up");
            } else {
                assert!(false, "VK_ASSERT component_anchor_is_an_offset");
            }
            vk_cover!(e > 1000.5 && f < -1000.5, "large in-range offsets accepted");
        }
        vk_cover!(e.abs() > 40000.0, "offset beyond 16 bits explored");
    }

    /// component 2x2 inside the range fontir lets through ([-2, 2]): stored within half a 2.14 step,
    /// +2.0 (not representable) stored as the largest 2.14 value, as documented
    #[cfg_attr(kani, kani::proof)]
    pub(super) fn c19_component_2x2_within_f2dot14() {
        let a = vk::finite_f64(4.0);
        vk::assume(a >= -2.0 && a <= 2.0);
        let t = Affine::new([a, 0.0, 0.0, 1.0, 0.0, 0.0]);
        let (c, _) = create_component_ref_gid(GlyphId16::new(1), &t).unwrap();
        let stored = c.transform.xx.to_f32() as f64;
        let step = 1.0 / 16384.0;
        assert!((stored - a).abs() <= step, "VK_ASSERT scale_within_one_f2dot14_step");
        if a <= 2.0 - step { assert!((stored - a).abs() <= step / 2.0, "VK_ASSERT scale_rounded_to_nearest_f2dot14"); }
        vk_cover!(a == 2.0, "the saturating end of the range");
        vk_cover!(a < -1.5, "negative scale");
    }

    /// composite deltas inside the 16-bit range: (0,0) becomes optional, anything else is required and
    /// not altered beyond rounding
    #[cfg_attr(kani, kani::proof)]
    #[cfg_attr(kani, kani::unwind(3))]
    pub(super) fn c19_composite_delta_not_clamped() {
        let dx = vk::finite_f64(1.0e9);
        let dy = vk::finite_f64(1.0e9);
        // |delta| beyond i16 is the separately recorded finding (c19_composite_delta_beyond_i16)
        vk::assume(dx >= -32768.0 && dx < 32767.5 && dy >= -32768.0 && dy < 32767.5);
        let out = process_composite_deltas(vec![Vec2::new(dx, dy)]);
        assert!(out.len() == 1, "VK_ASSERT one_delta_per_point");
        let d = out[0];
        assert!((d.x as f64 - dx).abs() <= 0.5 && (d.y as f64 - dy).abs() <= 0.5, "VK_ASSERT composite_delta_not_altered");
        let zero = (dx + 0.5).floor() == 0.0 && (dy + 0.5).floor() == 0.0;
        assert!(d.required != zero, "VK_ASSERT only_zero_deltas_are_optional");
        vk_cover!(zero, "a zero delta");
        vk_cover!(dx > 300.0 && dy < -300.0, "a large delta");
        std::mem::forget(out);
    }

    /// composite deltas beyond the 16-bit range must not be stored as something else
    /// (known finding on the pinned tree: they saturate; the function cannot report an error)
    #[cfg_attr(kani, kani::proof)]
    #[cfg_attr(kani, kani::unwind(3))]
    pub(super) fn c19_composite_delta_beyond_i16() {
        let dx = vk::finite_f64(1.0e9);
        vk::assume(dx >= 32767.5 || dx < -32768.5);
        let out = process_composite_deltas(vec![Vec2::new(dx, 1.0)]);
        assert!(out.len() == 1 && (out[0].x as f64 - dx).abs() <= 0.5, "VK_ASSERT composite_delta_beyond_i16_not_clamped");
        std::mem::forget(out);
    }

    /// use-my-metrics: only when the rounded advances really are equal (advances inside the u16 range)
    #[cfg_attr(kani, kani::proof)]
    #[cfg_attr(kani, kani::unwind(8))]
    pub(super) fn c19_can_reuse_metrics_width_not_clamped() {
        let w1 = vk::finite_f64(1.0e9);
        let w2 = vk::finite_f64(1.0e9);
        // advances beyond 65535 are the separately recorded finding (c19_can_reuse_metrics_beyond_u16)
        vk::assume(w1 >= 0.0 && w2 >= 0.0 && w1 < 65535.5 && w2 < 65535.5);
        let g = ir::GlyphInstance { width: w1, ..Default::default() };
        let c = ir::GlyphInstance { width: w2, ..Default::default() };
        let dx = vk::finite_f64(1.0e6);
        let t = Affine::new([1.0, 0.0, 0.0, 1.0, dx, 7.0]);
        if can_reuse_metrics(&g, &c, &t) {
            assert!((w1 + 0.5).floor() == (w2 + 0.5).floor(), "VK_ASSERT metrics_reused_only_for_equal_advances");
            assert!((dx + 0.5).floor() == 0.0, "VK_ASSERT metrics_reused_only_without_x_shift");
        } else {
            assert!((w1 + 0.5).floor() != (w2 + 0.5).floor() || (dx + 0.5).floor() != 0.0, "VK_ASSERT metrics_reused_for_equal_advances_without_shift");
        }
        vk_cover!(w1 > 40000.0 && w1 != w2 && (w1 + 0.5).floor() == (w2 + 0.5).floor(), "different advances that round to the same value");
        std::mem::forget(g); std::mem::forget(c);
    }

    /// advances beyond 65535 must not compare equal just because both were clamped
    /// (known finding on the pinned tree: advances saturate at 65535, here and in hmtx)
    #[cfg_attr(kani, kani::proof)]
    #[cfg_attr(kani, kani::unwind(8))]
    pub(super) fn c19_can_reuse_metrics_beyond_u16() {
        let w1 = vk::finite_f64(1.0e9);
        let w2 = vk::finite_f64(1.0e9);
        vk::assume(w1 >= 65535.5 && w2 >= 65535.5);
        let g = ir::GlyphInstance { width: w1, ..Default::default() };
        let c = ir::GlyphInstance { width: w2, ..Default::default() };
        if can_reuse_metrics(&g, &c, &Affine::IDENTITY) {
            assert!((w1 + 0.5).floor() == (w2 + 0.5).floor(), "VK_ASSERT advances_beyond_u16_not_clamped");
        }
        std::mem::forget(g); std::mem::forget(c);
    }
}
