//! Native reproducers (public API only) for the two C16 defects the Rank harnesses report.
//! Exit code 1 if either misbehaviour is observed.
use std::collections::BTreeMap;

use fontdrasil::{coords::NormalizedCoord, types::GlyphName};
use fontir::feature_variations::{overlay_feature_variations, NBox, Region};
use write_fonts::types::Tag;

fn nb(axis: &[u8; 4], lo: f64, hi: f64) -> NBox {
    let mut b = NBox::default();
    b.insert(Tag::new(axis), Some(NormalizedCoord::new(lo)), Some(NormalizedCoord::new(hi)));
    b
}
fn sub(i: usize) -> BTreeMap<GlyphName, GlyphName> {
    BTreeMap::from([(GlyphName::new(format!("g{i}")), GlyphName::new(format!("g{i}.alt")))])
}
fn contains(b: &NBox, p: &[(&[u8; 4], f64)]) -> bool {
    b.iter().all(|(t, (lo, hi))| {
        let v = p.iter().find(|(a, _)| Tag::new(a) == t).map(|(_, v)| *v).unwrap_or(0.0);
        lo.to_f64() <= v && v <= hi.to_f64()
    })
}
fn applied(out: &[(NBox, Vec<BTreeMap<GlyphName, GlyphName>>)], p: &[(&[u8; 4], f64)]) -> Vec<String> {
    for (b, subs) in out {
        if contains(b, p) {
            return subs.iter().flat_map(|m| m.keys().map(|k| k.to_string())).collect();
        }
    }
    vec![]
}

/// defect 1: output boxes are ordered by `count_zeros`, which is not "descending number of rules"
/// once ranks have different word counts (> 64 rules)
fn order_with(n_rules: usize) -> Vec<String> {
    let mut rules = vec![(Region::from(vec![nb(b"wght", 0.0, 0.5)]), sub(0))];
    for i in 1..n_rules - 1 {
        // fillers far away on a third axis, pairwise distinct
        let lo = 0.6 + 0.001 * i as f64;
        rules.push((Region::from(vec![nb(b"opsz", lo, lo + 0.0005)]), sub(i)));
    }
    rules.push((Region::from(vec![nb(b"wdth", 0.0, 0.5)]), sub(n_rules - 1)));
    let out = overlay_feature_variations(rules);
    applied(&out, &[(b"wght", 0.25), (b"wdth", 0.25), (b"opsz", 0.0)])
}

/// defect 2: `Rank |= &shorter_rank` ORs the shorter rank into the most significant words.
/// Rule 64 has two boxes: one covering rule 1's box, one disjoint from it.
fn bitor_assign_case() -> Result<Vec<String>, String> {
    let mut rules = Vec::new();
    for i in 0..64 {
        let lo = -0.9 + 0.01 * i as f64;
        rules.push((Region::from(vec![nb(b"wght", lo, lo + 0.005)]), sub(i)));
    }
    // rule 64: first box contains rule 1's box entirely, second box is elsewhere
    let r1_lo = -0.9 + 0.01;
    rules.push((Region::from(vec![nb(b"wght", r1_lo - 0.001, r1_lo + 0.006), nb(b"wght", 0.5, 0.6)]), sub(64)));
    rules.push((Region::from(vec![nb(b"wght", 0.8, 0.9)]), sub(65)));
    let res = std::panic::catch_unwind(|| {
        let out = overlay_feature_variations(rules);
        applied(&out, &[(b"wght", r1_lo + 0.002)])
    });
    res.map_err(|_| "overlay_feature_variations panicked".to_string())
}

fn main() {
    let mut bad = false;
    let a64 = order_with(64);
    let a65 = order_with(65);
    println!("64 rules, point inside rule 0 and rule 63: applied {a64:?}");
    println!("65 rules, point inside rule 0 and rule 64: applied {a65:?}");
    if a64.len() != 2 || a65.len() != 2 {
        println!("DEFECT sort key: the first matching box does not carry both matching rules");
        bad = true;
    }
    match bitor_assign_case() {
        Ok(v) => {
            println!("point inside rule 1 and rule 64 (66 rules): applied {v:?}");
            if v != vec!["g1".to_string(), "g64".to_string()] {
                println!("DEFECT bitor_assign: wrong set of substitutions");
                bad = true;
            }
        }
        Err(e) => { println!("DEFECT bitor_assign: {e}"); bad = true; }
    }
    std::process::exit(bad as i32);
}
