//! C13: a NUL byte in a feature file must not silently truncate it.
fn main() {
    let src = "feature liga { sub a by b; } liga;\0 # tail\nfeature kern { pos a b 10; } kern;\n";
    let (tree, diags) = fea_rs::parse::parse_string(src);
    let text: String = tree.root().iter_tokens().map(|t| t.as_str().to_string()).collect();
    println!("input {} bytes, tree text {} bytes, {} diagnostics", src.len(), text.len(), diags.len());
    let lossless = text == src;
    let silent_truncation = !lossless && diags.is_empty();
    println!("lossless={lossless} silent_truncation={silent_truncation}");
    std::process::exit(if lossless { 0 } else { 1 });
}
