"""tiny sfnt reader for the native reproducers (no third-party modules)"""
import struct, sys
def tables(data):
    n = struct.unpack('>H', data[4:6])[0]
    out = {}
    for i in range(n):
        tag, _cs, off, ln = struct.unpack('>4sIII', data[12 + 16 * i: 28 + 16 * i])
        out[tag.decode()] = data[off:off + ln]
    return out
if __name__ == '__main__':
    t = tables(open(sys.argv[1], 'rb').read())
    nh = struct.unpack('>H', t['hhea'][34:36])[0]
    adv = [struct.unpack('>H', t['hmtx'][4 * i: 4 * i + 2])[0] for i in range(nh)]
    print('numberOfHMetrics', nh, 'advances', adv, 'advanceWidthMax', struct.unpack('>H', t['hhea'][10:12])[0])
