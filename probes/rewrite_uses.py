#!/usr/bin/env python3
"""Probe: rewrite `use std::collections::...` leaves to `verif_shim::...` in Rust files.

usage: rewrite_uses.py FILE...
"""
import re, sys

SHIM = {"HashMap", "HashSet", "BTreeMap", "BTreeSet"}
SHIM_MODS = {"hash_map", "btree_map", "hash_set", "btree_set"}


def parse_tree(s, i):
    """parse a use-tree starting at s[i]; returns (node, next_i).
    node = (path_segments[list[str]], children[list[node]] | None, alias | None)"""
    segs = []
    while True:
        while s[i].isspace():
            i += 1
        if s[i] == '{':
            i += 1
            kids = []
            while True:
                while s[i].isspace():
                    i += 1
                if s[i] == '}':
                    i += 1
                    break
                kid, i = parse_tree(s, i)
                kids.append(kid)
                while s[i].isspace():
                    i += 1
                if s[i] == ',':
                    i += 1
            return (segs, kids, None), i
        m = re.compile(r'[A-Za-z_][A-Za-z0-9_]*|\*').match(s, i)
        assert m, (s[i:i + 40])
        segs.append(m.group(0))
        i = m.end()
        while i < len(s) and s[i].isspace():
            i += 1
        if s.startswith('::', i):
            i += 2
            continue
        alias = None
        m = re.compile(r'as\s+([A-Za-z_][A-Za-z0-9_]*)').match(s, i)
        if m:
            alias = m.group(1)
            i = m.end()
        return (segs, None, alias), i


def flatten(node, prefix=()):
    segs, kids, alias = node
    p = prefix + tuple(segs)
    if kids is None:
        yield (p, alias)
    else:
        for k in kids:
            yield from flatten(k, p)


def emit(leaves):
    out = []
    for p, alias in leaves:
        t = '::'.join(p)
        if alias:
            t += ' as ' + alias
        out.append(t)
    return out


def rewrite(text):
    out = []
    pos = 0
    changed = False
    for m in re.finditer(r'(?m)^([ \t]*)((?:pub(?:\([a-z]+\))?\s+)?use\s+)(std\s*::[^;]*);', text):
        indent, kw, tree = m.group(1), m.group(2), m.group(3)
        node, _ = parse_tree(tree + ';', 0)
        leaves = list(flatten(node))
        keep, shim = [], []
        for p, alias in leaves:
            if len(p) >= 3 and p[0] == 'std' and p[1] == 'collections' and (p[2] in SHIM or p[2] in SHIM_MODS):
                shim.append((('verif_shim',) + p[2:], alias))
            else:
                keep.append((p, alias))
        if not shim:
            continue
        changed = True
        out.append(text[pos:m.start()])
        lines = [f"{indent}{kw}{t};" for t in emit(keep)] + [f"{indent}{kw}{t};" for t in emit(shim)]
        out.append('\n'.join(lines))
        pos = m.end()
    out.append(text[pos:])
    text = ''.join(out)
    # fully qualified paths in expressions / types
    t2 = re.sub(r'\bstd::collections::(HashMap|HashSet|BTreeMap|BTreeSet)\b', r'verif_shim::\1', text)
    if t2 != text:
        changed = True
    return t2, changed


if __name__ == '__main__':
    n = 0
    for f in sys.argv[1:]:
        s = open(f).read()
        t, ch = rewrite(s)
        if ch:
            open(f, 'w').write(t)
            n += 1
    print(f"rewrote {n} files")
