            medium_bottom, -210.0,
            "Medium bottom should be interpolated: (-200+(-220))/2 = -210"
        );
    }
}

#[cfg(any(kani, verif_replay))]
mod verif_proofs {
    use super::*;
    use verif_vk as vk;

    #[cfg_attr(kani, kani::proof)]
    pub(super) fn component_offset_fits_or_errs() {
        let e = vk::any_f64();
        let f = vk::any_f64();
        vk::assume(e.is_finite() && f.is_finite() && e.abs() < 1.0e6 && f.abs() < 1.0e6);
        let t = Affine::new([1.0, 0.0, 0.0, 1.0, e, f]);
        if let Ok((c, _)) = create_component_ref_gid(GlyphId16::new(1), &t) {
            if let Anchor::Offset { x, y } = c.anchor {
                assert!((x as f64 - e).abs() <= 0.5, "VK_ASSERT offset_x_exact");
                assert!((y as f64 - f).abs() <= 0.5, "VK_ASSERT offset_y_exact");
            }
        }
    }

    #[cfg(verif_replay)]
    #[test]
    fn verif_replay_component_offset_fits_or_errs() {
        vk::load_from_env();
        component_offset_fits_or_errs();
    }
}
