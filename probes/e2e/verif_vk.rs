//! input abstraction: kani::any under Kani, recorded bytes under native replay
#[cfg(kani)]
mod imp {
    pub fn any_f64() -> f64 { kani::any() }
    pub fn any_u8() -> u8 { kani::any() }
    pub fn assume(c: bool) { kani::assume(c) }
}
#[cfg(not(kani))]
mod imp {
    use std::cell::RefCell;
    use std::collections::VecDeque;
    thread_local! { static VALS: RefCell<VecDeque<Vec<u8>>> = RefCell::new(VecDeque::new()); }
    /// VK_REPLAY="0,0,0,0,16,0,235,192;255,255,..." (one byte vector per any() call)
    pub fn load_from_env() {
        let s = std::env::var("VK_REPLAY").expect("VK_REPLAY");
        VALS.with(|v| {
            let mut v = v.borrow_mut();
            for part in s.split(';').filter(|p| !p.is_empty()) {
                v.push_back(part.split(',').map(|b| b.trim().parse::<u8>().unwrap()).collect());
            }
        });
    }
    fn pop(n: usize) -> Vec<u8> { VALS.with(|v| { let b = v.borrow_mut().pop_front().expect("replay values exhausted"); assert_eq!(b.len(), n); b }) }
    pub fn any_f64() -> f64 { f64::from_le_bytes(pop(8).try_into().unwrap()) }
    pub fn any_u8() -> u8 { pop(1)[0] }
    pub fn assume(c: bool) { if !c { panic!("VK_ASSUME_VIOLATED") } }
}
pub use imp::*;
