//! Probe: run the real generic VariationModel::deltas / interpolate_from_deltas on a
//! symbolic value type, emit an LRA query for "round trip within bound for all values".
use std::cell::RefCell;
use std::collections::{HashMap, HashSet};
use std::ops::{Add, Mul, Sub};

use fontdrasil::coords::{NormalizedCoord, NormalizedLocation};
use fontdrasil::variations::{RoundTiesEven, RoundingBehaviour, VariationModel};
use write_fonts::types::Tag;

#[derive(Clone, Debug)]
enum Node {
    Zero,
    Var(usize),         // master value v_i
    Round(u32),         // round(x) = x + e_k, |e_k| <= 1/2 (fresh e per node)
    Scale(u32, f64),    // x * c
    Sub(u32, u32),
    Add(u32, u32),
}

thread_local! { static ARENA: RefCell<Vec<Node>> = RefCell::new(vec![Node::Zero]); }

#[derive(Clone, Copy, Debug)]
struct Sym(u32);
fn mk(n: Node) -> Sym { ARENA.with(|a| { let mut a = a.borrow_mut(); a.push(n); Sym(a.len() as u32 - 1) }) }
impl Default for Sym { fn default() -> Self { Sym(0) } }
impl Sub for Sym { type Output = Sym; fn sub(self, r: Sym) -> Sym { mk(Node::Sub(self.0, r.0)) } }
impl Add for Sym { type Output = Sym; fn add(self, r: Sym) -> Sym { mk(Node::Add(self.0, r.0)) } }
impl Mul<f64> for Sym { type Output = Sym; fn mul(self, c: f64) -> Sym { mk(Node::Scale(self.0, c)) } }
impl RoundTiesEven for Sym { fn round_ties_even(self) -> Sym { mk(Node::Round(self.0)) } }

fn smt(i: u32, out: &mut String, rounds: &mut Vec<u32>) {
    let n = ARENA.with(|a| a.borrow()[i as usize].clone());
    match n {
        Node::Zero => out.push_str("0.0"),
        Node::Var(k) => out.push_str(&format!("v{k}")),
        Node::Round(x) => { rounds.push(i); out.push_str("(+ "); smt(x, out, rounds); out.push_str(&format!(" e{i})")); }
        Node::Scale(x, c) => {
            // exact rational for the f64 coefficient
            let (m, e) = (c * 2f64.powi(52), 52);
            out.push_str(&format!("(* (/ {:.1} {:.1}) ", m, 2f64.powi(e))); smt(x, out, rounds); out.push(')');
        }
        Node::Sub(a, b) => { out.push_str("(- "); smt(a, out, rounds); out.push(' '); smt(b, out, rounds); out.push(')'); }
        Node::Add(a, b) => { out.push_str("(+ "); smt(a, out, rounds); out.push(' '); smt(b, out, rounds); out.push(')'); }
    }
}

fn query_for(layout: &[NormalizedLocation], axes: Vec<Tag>, rounding: RoundingBehaviour, out: &mut String) -> usize {
    let model = VariationModel::new(layout.iter().cloned().collect::<HashSet<_>>(), axes);
    ARENA.with(|a| a.borrow_mut().truncate(1));
    let mut pts: HashMap<NormalizedLocation, Vec<Sym>> = HashMap::new();
    for (i, l) in layout.iter().enumerate() { pts.insert(l.clone(), vec![mk(Node::Var(i))]); }
    let deltas = model.deltas_with_rounding::<Sym, Sym>(&pts, rounding).unwrap();
    out.push_str("(push 1)\n");
    for i in 0..layout.len() { out.push_str(&format!("(declare-const v{i} Real)\n")); }
    let mut bad = Vec::new();
    let mut all_rounds = Vec::new();
    for (j, l) in layout.iter().enumerate() {
        let back = model.interpolate_from_deltas(l, &deltas);
        let mut e = String::new();
        let mut rounds = Vec::new();
        smt(back[0].0, &mut e, &mut rounds);
        let active: f64 = deltas.iter().map(|(r, _)| r.scalar_at(l).into_inner()).sum();
        let bound = match rounding { RoundingBehaviour::None => 1e-9, _ => 0.5 * active + 1e-9 };
        bad.push(format!("(> (ite (>= (- {e} v{j}) 0.0) (- {e} v{j}) (- v{j} {e})) {bound:.12})"));
        all_rounds.extend(rounds);
    }
    all_rounds.sort(); all_rounds.dedup();
    for r in &all_rounds { out.push_str(&format!("(declare-const e{r} Real)\n(assert (and (<= (- 0.5) e{r}) (<= e{r} 0.5)))\n")); }
    out.push_str(&format!("(assert (or {}))\n(check-sat)\n(pop 1)\n", bad.join(" ")));
    deltas.len()
}

fn batch() {
    let wght = Tag::new(b"wght");
    let wdth = Tag::new(b"wdth");
    let mut q = String::from("(set-logic QF_LRA)\n");
    let mut n = 0usize;
    // 1 axis, k/4 grid, m <= 3 non-default masters
    let grid1: Vec<f64> = (-4..=4).filter(|k| *k != 0).map(|k| k as f64 / 4.0).collect();
    let l1 = |a: f64| -> NormalizedLocation { vec![(wght, NormalizedCoord::new(a))].into() };
    for i in 0..grid1.len() { for j in i..grid1.len() { for k in j..grid1.len() {
        let mut lay = vec![l1(0.0), l1(grid1[i])];
        if j > i { lay.push(l1(grid1[j])); }
        if k > j { lay.push(l1(grid1[k])); }
        for r in [RoundingBehaviour::None, RoundingBehaviour::RoundTiesEven] { query_for(&lay, vec![wght], r, &mut q); n += 1; }
    } } }
    // 2 axes, k/2 grid, m <= 2 non-default masters
    let mut pts2 = Vec::new();
    for a in -2..=2 { for b in -2..=2 { if a != 0 || b != 0 { pts2.push((a as f64 / 2.0, b as f64 / 2.0)); } } }
    let l2 = |p: (f64, f64)| -> NormalizedLocation { vec![(wght, NormalizedCoord::new(p.0)), (wdth, NormalizedCoord::new(p.1))].into() };
    for i in 0..pts2.len() { for j in i..pts2.len() {
        let mut lay = vec![l2((0.0, 0.0)), l2(pts2[i])];
        if j > i { lay.push(l2(pts2[j])); }
        for r in [RoundingBehaviour::None, RoundingBehaviour::RoundTiesEven] { query_for(&lay, vec![wght, wdth], r, &mut q); n += 1; }
    } }
    std::fs::write("/tmp/probe/sv1_batch.smt2", &q).unwrap();
    println!("batch: {n} queries, {} bytes", q.len());
}

fn main() {
    if std::env::args().nth(1).as_deref() == Some("batch") { batch(); return; }
    let wght = Tag::new(b"wght");
    let wdth = Tag::new(b"wdth");
    let loc = |a: f64, b: f64| -> NormalizedLocation { vec![(wght, NormalizedCoord::new(a)), (wdth, NormalizedCoord::new(b))].into() };
    // fontTools models_test layout with an intermediate and a corner master
    let layout = vec![loc(0.0, 0.0), loc(1.0, 0.0), loc(0.0, 1.0), loc(1.0, 1.0), loc(0.5, 0.5), loc(-1.0, 0.0)];
    let model = VariationModel::new(layout.iter().cloned().collect::<HashSet<_>>(), vec![wght, wdth]);
    for rounding in [RoundingBehaviour::None, RoundingBehaviour::RoundTiesEven] {
        ARENA.with(|a| a.borrow_mut().truncate(1));
        let mut pts: HashMap<NormalizedLocation, Vec<Sym>> = HashMap::new();
        for (i, l) in layout.iter().enumerate() { pts.insert(l.clone(), vec![mk(Node::Var(i))]); }
        let deltas = model.deltas_with_rounding::<Sym, Sym>(&pts, rounding).unwrap();
        let mut q = String::from("(set-logic QF_LRA)\n");
        for i in 0..layout.len() { q.push_str(&format!("(declare-const v{i} Real)\n")); }
        let mut bad = Vec::new();
        let mut all_rounds = Vec::new();
        for (j, l) in layout.iter().enumerate() {
            let back = model.interpolate_from_deltas(l, &deltas);
            let mut e = String::new();
            let mut rounds = Vec::new();
            smt(back[0].0, &mut e, &mut rounds);
            // bound: 0.5 * number of rounded deltas active here (coarse), exact when no rounding
            let active: f64 = deltas.iter().map(|(r, _)| r.scalar_at(l).into_inner()).sum();
            let bound = match rounding { RoundingBehaviour::None => 1e-9, _ => 0.5 * active + 1e-9 };
            bad.push(format!("(> (ite (>= (- {e} v{j}) 0.0) (- {e} v{j}) (- v{j} {e})) {bound:.12})"));
            all_rounds.extend(rounds);
        }
        all_rounds.sort(); all_rounds.dedup();
        for r in &all_rounds { q.push_str(&format!("(declare-const e{r} Real)\n(assert (and (<= (- 0.5) e{r}) (<= e{r} 0.5)))\n")); }
        q.push_str(&format!("(assert (or {}))\n(check-sat)\n", bad.join(" ")));
        let path = format!("/tmp/probe/sv1_{:?}.smt2", rounding);
        std::fs::write(&path, &q).unwrap();
        println!("{rounding:?}: regions={} nodes={} rounds={} -> {path}", deltas.len(), ARENA.with(|a| a.borrow().len()), all_rounds.len());
    }
}
