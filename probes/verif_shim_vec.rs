//! Vec-backed stand-ins for std HashMap / HashSet used only under Kani.
//! Semantics: a map is a duplicate-free association list; iteration order is
//! insertion order (one of the orders a real HashMap may produce).
use std::borrow::Borrow;
use std::fmt::Debug;

#[derive(Clone)]
pub struct HashMap<K, V> {
    items: Vec<(K, V)>,
}

impl<K, V> Default for HashMap<K, V> {
    fn default() -> Self { HashMap { items: Vec::new() } }
}

impl<K: Debug, V: Debug> Debug for HashMap<K, V> {
    fn fmt(&self, _f: &mut std::fmt::Formatter<'_>) -> std::fmt::Result { Ok(()) }
}

pub enum Entry<'a, K, V> {
    Occupied(&'a mut V),
    Vacant(&'a mut Vec<(K, V)>, K),
}

impl<'a, K, V> Entry<'a, K, V> {
    pub fn or_insert(self, v: V) -> &'a mut V {
        match self {
            Entry::Occupied(r) => r,
            Entry::Vacant(items, k) => {
                items.push((k, v));
                let n = items.len() - 1;
                &mut items[n].1
            }
        }
    }
    pub fn or_insert_with<F: FnOnce() -> V>(self, f: F) -> &'a mut V {
        match self {
            Entry::Occupied(r) => r,
            Entry::Vacant(items, k) => {
                items.push((k, f()));
                let n = items.len() - 1;
                &mut items[n].1
            }
        }
    }
    pub fn or_default(self) -> &'a mut V where V: Default { self.or_insert_with(V::default) }
}

impl<K: Eq, V> HashMap<K, V> {
    pub fn new() -> Self { Self::default() }
    pub fn with_capacity(_n: usize) -> Self { Self::default() }
    pub fn len(&self) -> usize { self.items.len() }
    pub fn is_empty(&self) -> bool { self.items.is_empty() }
    pub fn clear(&mut self) { self.items.clear() }
    fn pos<Q: ?Sized + Eq>(&self, k: &Q) -> Option<usize> where K: Borrow<Q> {
        let mut i = 0;
        while i < self.items.len() {
            if self.items[i].0.borrow() == k { return Some(i); }
            i += 1;
        }
        None
    }
    pub fn insert(&mut self, k: K, v: V) -> Option<V> {
        match self.pos(&k) {
            Some(i) => Some(std::mem::replace(&mut self.items[i].1, v)),
            None => { self.items.push((k, v)); None }
        }
    }
    pub fn get<Q: ?Sized + Eq>(&self, k: &Q) -> Option<&V> where K: Borrow<Q> {
        self.pos(k).map(|i| &self.items[i].1)
    }
    pub fn get_mut<Q: ?Sized + Eq>(&mut self, k: &Q) -> Option<&mut V> where K: Borrow<Q> {
        match self.pos(k) { Some(i) => Some(&mut self.items[i].1), None => None }
    }
    pub fn contains_key<Q: ?Sized + Eq>(&self, k: &Q) -> bool where K: Borrow<Q> { self.pos(k).is_some() }
    pub fn remove<Q: ?Sized + Eq>(&mut self, k: &Q) -> Option<V> where K: Borrow<Q> {
        self.pos(k).map(|i| self.items.remove(i).1)
    }
    pub fn entry(&mut self, k: K) -> Entry<'_, K, V> {
        match self.pos(&k) {
            Some(i) => Entry::Occupied(&mut self.items[i].1),
            None => Entry::Vacant(&mut self.items, k),
        }
    }
    pub fn iter(&self) -> impl Iterator<Item = (&K, &V)> + '_ { self.items.iter().map(|(k, v)| (k, v)) }
    pub fn iter_mut(&mut self) -> impl Iterator<Item = (&K, &mut V)> + '_ { self.items.iter_mut().map(|(k, v)| (&*k, v)) }
    pub fn keys(&self) -> impl Iterator<Item = &K> + '_ { self.items.iter().map(|(k, _)| k) }
    pub fn values(&self) -> impl Iterator<Item = &V> + '_ { self.items.iter().map(|(_, v)| v) }
    pub fn values_mut(&mut self) -> impl Iterator<Item = &mut V> + '_ { self.items.iter_mut().map(|(_, v)| v) }
    pub fn into_keys(self) -> impl Iterator<Item = K> { self.items.into_iter().map(|(k, _)| k) }
    pub fn into_values(self) -> impl Iterator<Item = V> { self.items.into_iter().map(|(_, v)| v) }
    pub fn retain<F: FnMut(&K, &mut V) -> bool>(&mut self, mut f: F) { self.items.retain_mut(|(k, v)| f(k, v)) }
}

impl<K: Eq, V: PartialEq> PartialEq for HashMap<K, V> {
    fn eq(&self, o: &Self) -> bool {
        self.len() == o.len() && self.items.iter().all(|(k, v)| o.get(k) == Some(v))
    }
}
impl<K: Eq, V: Eq> Eq for HashMap<K, V> {}

impl<K: Eq, V> FromIterator<(K, V)> for HashMap<K, V> {
    fn from_iter<I: IntoIterator<Item = (K, V)>>(it: I) -> Self {
        let mut m = Self::default();
        for (k, v) in it { m.insert(k, v); }
        m
    }
}
impl<K: Eq, V> Extend<(K, V)> for HashMap<K, V> {
    fn extend<I: IntoIterator<Item = (K, V)>>(&mut self, it: I) { for (k, v) in it { self.insert(k, v); } }
}
impl<K: Eq, V, const N: usize> From<[(K, V); N]> for HashMap<K, V> {
    fn from(a: [(K, V); N]) -> Self { a.into_iter().collect() }
}
impl<K, V> IntoIterator for HashMap<K, V> {
    type Item = (K, V);
    type IntoIter = std::vec::IntoIter<(K, V)>;
    fn into_iter(self) -> Self::IntoIter { self.items.into_iter() }
}
impl<'a, K, V> IntoIterator for &'a HashMap<K, V> {
    type Item = (&'a K, &'a V);
    type IntoIter = std::iter::Map<std::slice::Iter<'a, (K, V)>, fn(&'a (K, V)) -> (&'a K, &'a V)>;
    fn into_iter(self) -> Self::IntoIter { self.items.iter().map(|(k, v)| (k, v)) }
}
impl<K: Eq + Borrow<Q>, Q: ?Sized + Eq, V> std::ops::Index<&Q> for HashMap<K, V> {
    type Output = V;
    fn index(&self, k: &Q) -> &V { self.get(k).expect("no entry found for key") }
}

#[derive(Clone)]
pub struct HashSet<T> { items: Vec<T> }
impl<T> Default for HashSet<T> { fn default() -> Self { HashSet { items: Vec::new() } } }
impl<T: Debug> Debug for HashSet<T> {
    fn fmt(&self, _f: &mut std::fmt::Formatter<'_>) -> std::fmt::Result { Ok(()) }
}
impl<T: Eq> HashSet<T> {
    pub fn new() -> Self { Self::default() }
    pub fn with_capacity(_n: usize) -> Self { Self::default() }
    pub fn len(&self) -> usize { self.items.len() }
    pub fn is_empty(&self) -> bool { self.items.is_empty() }
    pub fn clear(&mut self) { self.items.clear() }
    fn pos<Q: ?Sized + Eq>(&self, k: &Q) -> Option<usize> where T: Borrow<Q> {
        let mut i = 0;
        while i < self.items.len() {
            if self.items[i].borrow() == k { return Some(i); }
            i += 1;
        }
        None
    }
    pub fn insert(&mut self, t: T) -> bool {
        if self.pos(&t).is_some() { false } else { self.items.push(t); true }
    }
    pub fn contains<Q: ?Sized + Eq>(&self, k: &Q) -> bool where T: Borrow<Q> { self.pos(k).is_some() }
    pub fn get<Q: ?Sized + Eq>(&self, k: &Q) -> Option<&T> where T: Borrow<Q> { self.pos(k).map(|i| &self.items[i]) }
    pub fn remove<Q: ?Sized + Eq>(&mut self, k: &Q) -> bool where T: Borrow<Q> {
        match self.pos(k) { Some(i) => { self.items.remove(i); true } None => false }
    }
    pub fn iter(&self) -> std::slice::Iter<'_, T> { self.items.iter() }
    pub fn retain<F: FnMut(&T) -> bool>(&mut self, f: F) { self.items.retain(f) }
    pub fn difference<'a>(&'a self, o: &'a Self) -> impl Iterator<Item = &'a T> + 'a { self.items.iter().filter(move |t| !o.contains(*t)) }
    pub fn intersection<'a>(&'a self, o: &'a Self) -> impl Iterator<Item = &'a T> + 'a { self.items.iter().filter(move |t| o.contains(*t)) }
    pub fn is_subset(&self, o: &Self) -> bool { self.items.iter().all(|t| o.contains(t)) }
}
impl<T: Eq> PartialEq for HashSet<T> {
    fn eq(&self, o: &Self) -> bool { self.len() == o.len() && self.items.iter().all(|t| o.contains(t)) }
}
impl<T: Eq> Eq for HashSet<T> {}
impl<T: Eq> FromIterator<T> for HashSet<T> {
    fn from_iter<I: IntoIterator<Item = T>>(it: I) -> Self { let mut s = Self::default(); for t in it { s.insert(t); } s }
}
impl<T: Eq> Extend<T> for HashSet<T> {
    fn extend<I: IntoIterator<Item = T>>(&mut self, it: I) { for t in it { self.insert(t); } }
}
impl<T: Eq, const N: usize> From<[T; N]> for HashSet<T> { fn from(a: [T; N]) -> Self { a.into_iter().collect() } }
impl<T> IntoIterator for HashSet<T> {
    type Item = T; type IntoIter = std::vec::IntoIter<T>;
    fn into_iter(self) -> Self::IntoIter { self.items.into_iter() }
}
impl<'a, T> IntoIterator for &'a HashSet<T> {
    type Item = &'a T; type IntoIter = std::slice::Iter<'a, T>;
    fn into_iter(self) -> Self::IntoIter { self.items.iter() }
}

// serde: the shimmed types appear inside #[derive(Serialize, Deserialize)] structs; never exercised.
impl<K, V> serde::Serialize for HashMap<K, V> {
    fn serialize<S: serde::Serializer>(&self, _s: S) -> Result<S::Ok, S::Error> { unimplemented!() }
}
impl<'de, K, V> serde::Deserialize<'de> for HashMap<K, V> {
    fn deserialize<D: serde::Deserializer<'de>>(_d: D) -> Result<Self, D::Error> { unimplemented!() }
}
impl<T> serde::Serialize for HashSet<T> {
    fn serialize<S: serde::Serializer>(&self, _s: S) -> Result<S::Ok, S::Error> { unimplemented!() }
}
impl<'de, T> serde::Deserialize<'de> for HashSet<T> {
    fn deserialize<D: serde::Deserializer<'de>>(_d: D) -> Result<Self, D::Error> { unimplemented!() }
}

// ---------------------------------------------------------------- BTreeMap (sorted Vec)
#[derive(Clone, PartialEq, Eq, PartialOrd, Ord, Hash)]
pub struct BTreeMap<K, V> { items: Vec<(K, V)> }
impl<K, V> Default for BTreeMap<K, V> { fn default() -> Self { BTreeMap { items: Vec::new() } } }
impl<K: Debug, V: Debug> Debug for BTreeMap<K, V> {
    fn fmt(&self, _f: &mut std::fmt::Formatter<'_>) -> std::fmt::Result { Ok(()) }
}
impl<K: Ord, V> BTreeMap<K, V> {
    pub fn new() -> Self { Self::default() }
    pub fn len(&self) -> usize { self.items.len() }
    pub fn is_empty(&self) -> bool { self.items.is_empty() }
    pub fn clear(&mut self) { self.items.clear() }
    // Ok(i): found at i; Err(i): insertion point
    fn search<Q: ?Sized + Ord>(&self, k: &Q) -> Result<usize, usize> where K: Borrow<Q> {
        let mut i = 0;
        while i < self.items.len() {
            match self.items[i].0.borrow().cmp(k) {
                std::cmp::Ordering::Less => i += 1,
                std::cmp::Ordering::Equal => return Ok(i),
                std::cmp::Ordering::Greater => return Err(i),
            }
        }
        Err(i)
    }
    pub fn insert(&mut self, k: K, v: V) -> Option<V> {
        match self.search(&k) {
            Ok(i) => Some(std::mem::replace(&mut self.items[i].1, v)),
            Err(i) => { self.items.insert(i, (k, v)); None }
        }
    }
    pub fn get<Q: ?Sized + Ord>(&self, k: &Q) -> Option<&V> where K: Borrow<Q> {
        match self.search(k) { Ok(i) => Some(&self.items[i].1), Err(_) => None }
    }
    pub fn get_mut<Q: ?Sized + Ord>(&mut self, k: &Q) -> Option<&mut V> where K: Borrow<Q> {
        match self.search(k) { Ok(i) => Some(&mut self.items[i].1), Err(_) => None }
    }
    pub fn contains_key<Q: ?Sized + Ord>(&self, k: &Q) -> bool where K: Borrow<Q> { self.search(k).is_ok() }
    pub fn remove<Q: ?Sized + Ord>(&mut self, k: &Q) -> Option<V> where K: Borrow<Q> {
        match self.search(k) { Ok(i) => Some(self.items.remove(i).1), Err(_) => None }
    }
    pub fn iter(&self) -> impl DoubleEndedIterator<Item = (&K, &V)> + '_ { self.items.iter().map(|(k, v)| (k, v)) }
    pub fn iter_mut(&mut self) -> impl Iterator<Item = (&K, &mut V)> + '_ { self.items.iter_mut().map(|(k, v)| (&*k, v)) }
    pub fn keys(&self) -> impl DoubleEndedIterator<Item = &K> + '_ { self.items.iter().map(|(k, _)| k) }
    pub fn values(&self) -> impl DoubleEndedIterator<Item = &V> + '_ { self.items.iter().map(|(_, v)| v) }
    pub fn values_mut(&mut self) -> impl Iterator<Item = &mut V> + '_ { self.items.iter_mut().map(|(_, v)| v) }
    pub fn retain<F: FnMut(&K, &mut V) -> bool>(&mut self, mut f: F) { self.items.retain_mut(|(k, v)| f(k, v)) }
    pub fn first_key_value(&self) -> Option<(&K, &V)> { self.items.first().map(|(k, v)| (k, v)) }
    pub fn last_key_value(&self) -> Option<(&K, &V)> { self.items.last().map(|(k, v)| (k, v)) }
    pub fn entry(&mut self, k: K) -> BEntry<'_, K, V> {
        match self.search(&k) {
            Ok(i) => BEntry::Occupied(&mut self.items[i].1),
            Err(i) => BEntry::Vacant(&mut self.items, i, k),
        }
    }
}
pub enum BEntry<'a, K, V> { Occupied(&'a mut V), Vacant(&'a mut Vec<(K, V)>, usize, K) }
impl<'a, K, V> BEntry<'a, K, V> {
    pub fn or_insert_with<F: FnOnce() -> V>(self, f: F) -> &'a mut V {
        match self {
            BEntry::Occupied(r) => r,
            BEntry::Vacant(items, i, k) => { items.insert(i, (k, f())); &mut items[i].1 }
        }
    }
    pub fn or_insert(self, v: V) -> &'a mut V { self.or_insert_with(|| v) }
    pub fn or_default(self) -> &'a mut V where V: Default { self.or_insert_with(V::default) }
}
impl<K: Ord, V> FromIterator<(K, V)> for BTreeMap<K, V> {
    fn from_iter<I: IntoIterator<Item = (K, V)>>(it: I) -> Self { let mut m = Self::default(); for (k, v) in it { m.insert(k, v); } m }
}
impl<K: Ord, V> Extend<(K, V)> for BTreeMap<K, V> {
    fn extend<I: IntoIterator<Item = (K, V)>>(&mut self, it: I) { for (k, v) in it { self.insert(k, v); } }
}
impl<K: Ord, V, const N: usize> From<[(K, V); N]> for BTreeMap<K, V> { fn from(a: [(K, V); N]) -> Self { a.into_iter().collect() } }
impl<K, V> IntoIterator for BTreeMap<K, V> {
    type Item = (K, V); type IntoIter = std::vec::IntoIter<(K, V)>;
    fn into_iter(self) -> Self::IntoIter { self.items.into_iter() }
}
impl<'a, K, V> IntoIterator for &'a BTreeMap<K, V> {
    type Item = (&'a K, &'a V);
    type IntoIter = std::iter::Map<std::slice::Iter<'a, (K, V)>, fn(&'a (K, V)) -> (&'a K, &'a V)>;
    fn into_iter(self) -> Self::IntoIter { self.items.iter().map(|(k, v)| (k, v)) }
}
impl<K: Ord + Borrow<Q>, Q: ?Sized + Ord, V> std::ops::Index<&Q> for BTreeMap<K, V> {
    type Output = V;
    fn index(&self, k: &Q) -> &V { self.get(k).expect("no entry found for key") }
}
impl<K, V> serde::Serialize for BTreeMap<K, V> {
    fn serialize<S: serde::Serializer>(&self, _s: S) -> Result<S::Ok, S::Error> { unimplemented!() }
}
impl<'de, K, V> serde::Deserialize<'de> for BTreeMap<K, V> {
    fn deserialize<D: serde::Deserializer<'de>>(_d: D) -> Result<Self, D::Error> { unimplemented!() }
}

// ---------------------------------------------------------------- IndexMap (insertion-ordered Vec)
pub mod indexmap {
    use super::*;
    #[derive(Clone)]
    pub struct IndexMap<K, V> { items: Vec<(K, V)> }
    impl<K, V> Default for IndexMap<K, V> { fn default() -> Self { IndexMap { items: Vec::new() } } }
    pub mod map {
        pub enum Entry<'a, K, V> { Occupied(OccupiedEntry<'a, V>), Vacant(VacantEntry<'a, K, V>) }
        pub struct OccupiedEntry<'a, V> { pub(crate) r: &'a mut V }
        pub struct VacantEntry<'a, K, V> { pub(crate) items: &'a mut Vec<(K, V)>, pub(crate) k: K }
        impl<'a, V> OccupiedEntry<'a, V> {
            pub fn get_mut(&mut self) -> &mut V { self.r }
            pub fn into_mut(self) -> &'a mut V { self.r }
        }
        impl<'a, K, V> VacantEntry<'a, K, V> {
            pub fn insert(self, v: V) -> &'a mut V { self.items.push((self.k, v)); let n = self.items.len() - 1; &mut self.items[n].1 }
        }
        impl<'a, K, V> Entry<'a, K, V> {
            pub fn or_insert_with<F: FnOnce() -> V>(self, f: F) -> &'a mut V {
                match self { Entry::Occupied(o) => o.r, Entry::Vacant(v) => v.insert(f()) }
            }
            pub fn or_default(self) -> &'a mut V where V: Default { self.or_insert_with(V::default) }
            pub fn or_insert(self, v: V) -> &'a mut V { self.or_insert_with(|| v) }
        }
    }
    impl<K: Eq, V> IndexMap<K, V> {
        pub fn new() -> Self { Self::default() }
        pub fn len(&self) -> usize { self.items.len() }
        pub fn is_empty(&self) -> bool { self.items.is_empty() }
        fn pos(&self, k: &K) -> Option<usize> {
            let mut i = 0;
            while i < self.items.len() { if &self.items[i].0 == k { return Some(i); } i += 1; }
            None
        }
        pub fn insert(&mut self, k: K, v: V) -> Option<V> {
            match self.pos(&k) { Some(i) => Some(std::mem::replace(&mut self.items[i].1, v)), None => { self.items.push((k, v)); None } }
        }
        pub fn get(&self, k: &K) -> Option<&V> { self.pos(k).map(|i| &self.items[i].1) }
        pub fn contains_key(&self, k: &K) -> bool { self.pos(k).is_some() }
        pub fn entry(&mut self, k: K) -> map::Entry<'_, K, V> {
            match self.pos(&k) {
                Some(i) => map::Entry::Occupied(map::OccupiedEntry { r: &mut self.items[i].1 }),
                None => map::Entry::Vacant(map::VacantEntry { items: &mut self.items, k }),
            }
        }
        pub fn iter(&self) -> impl DoubleEndedIterator<Item = (&K, &V)> + '_ { self.items.iter().map(|(k, v)| (k, v)) }
        pub fn values(&self) -> impl DoubleEndedIterator<Item = &V> + '_ { self.items.iter().map(|(_, v)| v) }
        pub fn keys(&self) -> impl DoubleEndedIterator<Item = &K> + '_ { self.items.iter().map(|(k, _)| k) }
    }
    impl<K: Eq, V, const N: usize> From<[(K, V); N]> for IndexMap<K, V> {
        fn from(a: [(K, V); N]) -> Self { let mut m = Self::default(); for (k, v) in a { m.insert(k, v); } m }
    }
    impl<K: Eq, V> FromIterator<(K, V)> for IndexMap<K, V> {
        fn from_iter<I: IntoIterator<Item = (K, V)>>(it: I) -> Self { let mut m = Self::default(); for (k, v) in it { m.insert(k, v); } m }
    }
    impl<K, V> IntoIterator for IndexMap<K, V> {
        type Item = (K, V); type IntoIter = std::vec::IntoIter<(K, V)>;
        fn into_iter(self) -> Self::IntoIter { self.items.into_iter() }
    }
}

// ---------------------------------------------------------------- simple stable insertion sort
pub trait VSort<T> {
    fn vsort(&mut self) where T: Ord;
    fn vsort_by_key<K: Ord, F: FnMut(&T) -> K>(&mut self, f: F);
    fn vsort_by<F: FnMut(&T, &T) -> std::cmp::Ordering>(&mut self, f: F);
}
impl<T> VSort<T> for [T] {
    fn vsort(&mut self) where T: Ord {
        let n = self.len();
        let mut i = 1;
        while i < n {
            let mut j = i;
            while j > 0 && self[j] < self[j - 1] { self.swap(j, j - 1); j -= 1; }
            i += 1;
        }
    }
    fn vsort_by_key<K: Ord, F: FnMut(&T) -> K>(&mut self, mut f: F) {
        let n = self.len();
        let mut i = 1;
        while i < n {
            let mut j = i;
            while j > 0 && f(&self[j]) < f(&self[j - 1]) { self.swap(j, j - 1); j -= 1; }
            i += 1;
        }
    }
    fn vsort_by<F: FnMut(&T, &T) -> std::cmp::Ordering>(&mut self, mut f: F) {
        let n = self.len();
        let mut i = 1;
        while i < n {
            let mut j = i;
            while j > 0 && f(&self[j], &self[j - 1]) == std::cmp::Ordering::Less { self.swap(j, j - 1); j -= 1; }
            i += 1;
        }
    }
}
