use fontdrasil::coords::NormalizedLocation;
use fontir::{orchestration::WorkId, paths::Paths};
use std::path::Path;

fn main() {
    let a = NormalizedLocation::for_pos(&[("wght", 0.001)]);
    let b = NormalizedLocation::for_pos(&[("wght", 0.002)]);
    let pa = Paths::target_file(Path::new("build"), &WorkId::KernInstance(a.clone()));
    let pb = Paths::target_file(Path::new("build"), &WorkId::KernInstance(b.clone()));
    println!("{:?} {:?} distinct_ids={} same_file={}", pa, pb, a != b, pa == pb);
    let r = std::panic::catch_unwind(|| fontdrasil::types::WidthClass::try_from(0u16));
    println!("WidthClass::try_from(0) in this profile: {:?}", r.map(|x| x.is_ok()));
}
