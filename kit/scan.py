"""narrowing-site scan for C19 (filled in later)"""


def run(pid):
    return None


def write_replay(pid, rec):
    return ""
