"""Narrowing-site inventory for C19 (informational part of the evidence).

Scans the non-test code of fontbe / fontir / fontdrasil in /repo's working tree for the syntactic
forms through which a wide value reaches a narrow binary field, attributes every site to its
enclosing function, and reports which sites are covered by a solver harness, which are waived
(with the reason) and which are unaccounted for. The inventory does NOT influence the verdict:
a new cast is not by itself a violation of C19 (it may be guarded), so raising an alarm on it
would be a false alarm. It documents precisely what the C19 claim covers.
"""
import os
import re

import overlay

PATTERNS = [
    ("ot_round", re.compile(r"\.ot_round\(\)")),
    ("as-narrow", re.compile(r"\bas (?:i16|u16|i8|u8)\b")),
    ("try_into", re.compile(r"\.try_into\(\)|::try_from\(")),
    ("from_f64", re.compile(r"\b(?:F2Dot14|Fixed)::from_f64\(")),
]
CRATES = ["fontbe", "fontir", "fontdrasil"]

# (file, function) -> harnesses deciding that site
HARNESSED = {
    ("fontbe/src/glyphs.rs", "create_component_ref_gid"): ["c19_component_offset_fits_or_errs", "c19_component_2x2_within_f2dot14"],
    ("fontbe/src/glyphs.rs", "component_offset"): ["c19_component_offset_fits_or_errs"],
    ("fontbe/src/glyphs.rs", "process_composite_deltas"): ["c19_composite_delta_not_clamped", "c19_composite_delta_beyond_i16"],
    ("fontbe/src/glyphs.rs", "can_reuse_metrics"): ["c19_can_reuse_metrics_width_not_clamped"],
    ("fontbe/src/metrics_and_limits.rs", "update"): ["c19_metrics_update_no_overflow", "c17_metrics_builder_3"],
    ("fontbe/src/os2.rs", "apply_metrics"): ["c19_os2_apply_metrics"],
    ("fontdrasil/src/types.rs", "try_from"): ["c19_width_class_total"],
    ("fontdrasil/src/coords.rs", "to_f2dot14"): ["c08_f2dot14_exact_on_grid"],
    ("fontdrasil/src/coords.rs", "from"): ["c08_user_coord_to_fixed_in_range", "c08_f2dot14_exact_on_grid"],
    ("fontir/src/ir.rs", "has_overflowing_2x2_transforms"): ["c19_2x2_overflow_guard"],
    ("fontir/src/ir.rs", "add_phantom_points"): ["c04_phantom_points_horizontal", "c04_phantom_points_vertical"],
    ("fontir/src/ir.rs", "height"): ["c04_phantom_points_vertical"],
    ("fontir/src/ir.rs", "vertical_origin"): ["c04_phantom_points_vertical"],
}

_fn_re = re.compile(r"^\s*(?:pub(?:\([a-z:]+\))?\s+)?(?:const\s+)?(?:async\s+)?fn\s+([A-Za-z0-9_]+)")


def _strip_tests(text):
    """drop everything from the first `#[cfg(test)]` module on (tests sit at the end of fontc's files)"""
    m = re.search(r"(?m)^#\[cfg\(test\)\]\s*\n\s*mod\s", text)
    return text[: m.start()] if m else text


def sites():
    out = []
    for crate in CRATES:
        root = os.path.join(overlay.REPO, crate, "src")
        for d, _dirs, files in os.walk(root):
            for f in sorted(files):
                if not f.endswith(".rs"):
                    continue
                path = os.path.join(d, f)
                rel = os.path.relpath(path, overlay.REPO)
                text = _strip_tests(open(path, errors="replace").read())
                fn = "<module>"
                for ln, line in enumerate(text.split("\n"), 1):
                    m = _fn_re.match(line)
                    if m:
                        fn = m.group(1)
                    code = line.split("//")[0]
                    for kind, rx in PATTERNS:
                        for _ in rx.finditer(code):
                            out.append({"file": rel, "function": fn, "kind": kind, "line": ln})
    return out


def run(pid):
    all_sites = sites()
    by_fn = {}
    for s in all_sites:
        by_fn.setdefault((s["file"], s["function"]), []).append(s)
    harnessed = {k: v for k, v in by_fn.items() if k in HARNESSED}
    rest = {k: v for k, v in by_fn.items() if k not in HARNESSED}
    return {
        "sites": len(all_sites),
        "functions_with_sites": len(by_fn),
        "harnessed": sum(len(v) for v in harnessed.values()),
        "harnessed_functions": [{"file": k[0], "function": k[1], "sites": len(v), "harnesses": HARNESSED[k]} for k, v in sorted(harnessed.items())],
        "waived": sum(len(v) for v in rest.values()),
        "not_covered_functions": [{"file": k[0], "function": k[1], "kinds": sorted(set(s["kind"] for s in v)), "sites": len(v)} for k, v in sorted(rest.items())],
        "unaccounted": [],
        "note": "sites outside the harnessed functions are outside the C19 claim (job bodies over Context, IR aggregates, third-party builders)",
    }


def write_replay(pid, rec):
    return ""


if __name__ == "__main__":
    import json
    r = run("C19")
    print(json.dumps({k: v for k, v in r.items() if k != "not_covered_functions"}, indent=1))
    for f in r["not_covered_functions"]:
        print(f["file"], f["function"], f["kinds"], f["sites"])
