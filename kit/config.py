"""Groups (one overlay + one Kani target dir each), the harness registry and per-property metadata."""

# Kani flags of the functional harnesses: memory-safety and overflow instrumentation off
# (the C19 harnesses keep both on); unwinding assertions are ALWAYS on.
FUNCTIONAL_FLAGS = ["--no-memory-safety-checks", "--no-overflow-checks"]
CHECKED_FLAGS = []

PARALLEL = {"quick": 6, "thorough": 3}
MEM_GB = {"quick": 8, "thorough": 16}
TIMEOUT_S = {"quick": 1800, "thorough": 5400}

ASSUMPTIONS = [
    "trusted: rustc + Kani 0.68 MIR->goto translation, CBMC 6.11, CaDiCaL",
    "T1: std/indexmap containers replaced by array-backed verif_shim containers (capacity 2-4, per group) in the overlay; differential self-test against std on every run",
    "T2: slice sorts replaced by a stable insertion sort (VSort); differential self-test against std on every run",
    "T3: alloc::fmt::format stubbed where harnesses name it (error-message builders only)",
    "verdicts are bounded: they hold for the shapes, grids and unwinding bounds recorded per harness; unwinding assertions are on",
    "counterexamples are replayed natively against the unshimmed code (dev and release) before they are reported",
]

GROUPS = {
    "fontdrasil": {
        "package": "fontdrasil",
        "t1_crates": ["fontdrasil"],
        "t2_crates": ["fontdrasil"],
        "shim_features": ["cap2"],
        "harness": {
            "fontdrasil/src/variations.rs": "harness/fontdrasil/variations.rs",
            "fontdrasil/src/piecewise_linear_map.rs": "harness/fontdrasil/piecewise_linear_map.rs",
            "fontdrasil/src/coords.rs": "harness/fontdrasil/coords.rs",
            "fontdrasil/src/types.rs": "harness/fontdrasil/types.rs",
        },
    },
}

GROUPS["fontdrasil-c4"] = {
    "package": "fontdrasil",
    "t1_crates": ["fontdrasil"],
    "t2_crates": ["fontdrasil"],
    "harness": {
        "fontdrasil/src/orchestration.rs": "harness/fontdrasil/orchestration.rs",
    },
}
GROUPS["fontir"] = {
    "package": "fontir",
    "t1_files": ["fontir/src/feature_variations.rs"],
    "t2_files": ["fontir/src/feature_variations.rs"],
    "shim_features": ["cap2"],
    "harness": {
        "fontir/src/feature_variations.rs": "harness/fontir/feature_variations.rs",
        "fontir/src/ir.rs": "harness/fontir/ir.rs",
        "fontir/src/propagate_anchors.rs": "harness/fontir/propagate_anchors.rs",
    },
}

GROUPS["fontbe"] = {
    "package": "fontbe",
    "dep_crates": ["fontbe"],
    # T1 on os2.rs alone (its HashSet<u32> kernels), plus the declared type of the two MiscMetadata fields it consumes
    "t1_files": ["fontbe/src/os2.rs"],
    "t1_fields": {"fontir/src/ir/static_metadata.rs": ["unicode_range_bits", "codepage_range_bits"]},
    "harness": {
        "fontbe/src/glyphs.rs": "harness/fontbe/glyphs.rs",
        "fontbe/src/metrics_and_limits.rs": "harness/fontbe/metrics_and_limits.rs",
        "fontbe/src/os2.rs": "harness/fontbe/os2.rs",
        "fontbe/src/os2/max_context.rs": "harness/fontbe/max_context.rs",
    },
}
GROUPS["fea-rs"] = {
    "package": "fea-rs",
    "cargo_args": ["--lib"],
    "dep_crates": ["fea-rs"],
    "harness": {
        "fea-rs/src/parse/lexer.rs": "harness/fea-rs/lexer.rs",
        "fea-rs/src/parse/lexer/token_set.rs": "harness/fea-rs/token_set.rs",
    },
}

GROUPS["fontir-wide"] = {
    "package": "fontir",
    "t1_crates": ["fontdrasil", "fontir"],
    "t2_crates": ["fontdrasil", "fontir"],
    "t1_keep_indexmap": True,
    "shim_features": ["cap2"],
    "harness": {
        "fontir/src/ir.rs": "harness/fontir/ir_2x2.rs",
    },
}

HARNESSES = []


def H(name, props, group, module, tier="quick", **kw):
    d = {"name": name, "props": props if isinstance(props, list) else [props], "group": group, "module": module, "tier": tier}
    d.update(kw)
    HARNESSES.append(d)


V = "fontdrasil/src/variations.rs"
H("c07_tent_validate_full_f64", "C07", "fontdrasil", "variations",
  funcs=[V + "::Tent::new", V + "::Tent::validate"],
  bound="three unconstrained finite f64 (comparisons only)",
  oracle="validate() == (min<=peak<=max and not min<0<max); Tent::new keeps the peak and zeroes the far side")
H("c07_scalar_leaf", "C07", "fontdrasil", "variations",
  funcs=[V + "::VariationRegion::scalar_at_with_args", V + "::Tent::new", V + "::VariationRegion::insert"],
  bound="one axis, min<=peak<=max and probe on the k/4 grid in [-1,1]; unwind 6",
  oracle="scalar in [0,1], 1 at the peak, 0 outside the open support, >0 inside")
H("c07_scalar_invalid_tent_ignored", "C07", "fontdrasil", "variations",
  funcs=[V + "::VariationRegion::scalar_at_with_args", V + "::Tent::validate"],
  bound="one axis, invalid (min,peak,max) and probe on the k/4 grid; unwind 6",
  oracle="an invalid tent contributes factor 1")
H("c07_regions_for_1axis_3", "C07", "fontdrasil", "variations",
  funcs=[V + "::regions_for", V + "::Tent::new"],
  bound="1 axis, default + 2 masters with symbolic k/4 coordinates; unwind 5",
  oracle="every tent valid; peak = master coordinate; min/max = axis extreme on the master's side; default all-zero")
H("c07_regions_for_2axis_3", "C07", "fontdrasil", "variations",
  funcs=[V + "::regions_for", V + "::Tent::new"],
  bound="2 axes, default + 2 masters with symbolic k/4 coordinates; unwind 5",
  oracle="as 1-axis, per axis")
H("c07_influence_pair_1axis", "C07", "fontdrasil", "variations",
  funcs=[V + "::master_influence", V + "::VariationRegion::scalar_at_with_args"],
  bound="pair (prev,cur) of regions_for-shaped regions on 1 axis, symbolic k/4 values; unwind 6",
  oracle="trimmed tent valid, keeps peak, only shrinks; prev's location outside the trimmed open support")
H("c07_influence_pair_2axis", "C07", "fontdrasil", "variations", tier="thorough",
  funcs=[V + "::master_influence"],
  bound="pair of regions active on both of 2 axes, symbolic k/4 values; unwind 6",
  oracle="trimmed tents valid, keep peaks, only shrink; prev's location outside the trimmed open support on some axis")
H("c07_delta_weights_pair", "C07", "fontdrasil", "variations",
  funcs=[V + "::delta_weights", V + "::VariationRegion::scalar_at_with_args"],
  bound="2 locations/regions on 1 axis, symbolic k/4 values; unwind 6",
  oracle="earlier master listed <=> its scalar at the later location != 0, weight == scalar")

P = "fontdrasil/src/piecewise_linear_map.rs"
C = "fontdrasil/src/coords.rs"
H("c08_plm_map_3nodes", "C08", "fontdrasil", "piecewise_linear_map", funcs=[P + "::PiecewiseLinearMap::map", P + "::lerp"],
  bound="3 nodes (sorted from, duplicates allowed), 6 values + probe on the k/4 grid in [-2,2]",
  oracle="node-exact (first duplicate), offset rule outside the nodes, value within neighbouring to-values inside; lerp's 0<=t<=1 assert unreachable")
H("c08_plm_map_monotone_2nodes", "C08", "fontdrasil", "piecewise_linear_map", funcs=[P + "::PiecewiseLinearMap::map", P + "::lerp"],
  bound="2 nodes strictly increasing from, non-decreasing to, two probes, all on the k/4 grid", oracle="x1<=x2 => map(x1)<=map(x2)")
H("c08_plm_new_reverse_2nodes", "C08", "fontdrasil", "piecewise_linear_map", funcs=[P + "::PiecewiseLinearMap::new", P + "::PiecewiseLinearMap::reverse", P + "::PiecewiseLinearMap::map"],
  bound="2 symbolic (from,to) pairs on the k/4 grid", oracle="new sorts and keeps pairs; reverse swaps roles; reverse(map(node)) == node for strictly monotone maps")
for _n, _shape in [("c08_conv_2nodes_default_min", "[0,1] default 0"), ("c08_conv_2nodes_default_max", "[20,90] default 1"),
                   ("c08_conv_3nodes_default_mid", "[100,400,900] default 1"), ("c08_conv_3nodes_default_first", "[100,400,900] default 0"),
                   ("c08_conv_3nodes_default_last", "[-0.5,12.25,100] default 2"), ("c08_conv_3nodes_flat_segment", "[20,20,90] default 0"),
                   ("c08_conv_4nodes_default_inner", "[-0.5,0,12.25,100] default 2"), ("c08_conv_1node", "[5] default 0"),
                   ("c08_conv_3nodes_listed_default_first", "[100,400,900] default 400, listed 400,100,900"),
                   ("c08_conv_3nodes_listed_descending", "[-0.5,12.25,100] default -0.5, listed 100,12.25,-0.5")]:
    H(_n, "C08", "fontdrasil", "coords", tier=("quick" if _n in ("c08_conv_2nodes_default_min", "c08_conv_2nodes_default_max", "c08_conv_3nodes_listed_default_first") else "thorough"), funcs=[C + "::CoordConverter::new", C + "::ConvertSpace impls (user/design/normalized)", P + "::PiecewiseLinearMap::{new,reverse,map}"],
      bound="design shape " + _shape + " concrete; user values strictly increasing + probe symbolic on the k/4 grid in [-2,2]",
      oracle="user node -> its design value; node normalization == reference design normalization (default 0, design min -1, design max +1); in-range probe normalizes within the node hull; 0 denormalizes to the default")
H("c08_conv_user_design_roundtrip_nodes", "C08", "fontdrasil", "coords", tier="thorough", funcs=[C + "::CoordConverter::new", C + "::ConvertSpace impls"],
  bound="design [100,400,900] default 1; 3 symbolic user nodes on the k/4 grid, symbolic node index", oracle="user->design->user returns the node")
H("c08_conv_denormalize_extremes", "C08", "fontdrasil", "coords", tier="thorough", funcs=[C + "::CoordConverter::new", C + "::ConvertSpace impls"],
  bound="design [100,400,900] default 1; 3 symbolic user nodes; normalized -1/0/+1", oracle="-1/0/+1 denormalize to user min/default/max")
for _n, _t, _q in [("c08_default_normalization_3distinct", "(300,400,700)", "quick"), ("c08_default_normalization_default_at_min", "(0,0,1)", "thorough"),
                   ("c08_default_normalization_default_at_max", "(-12.5,1000,1000)", "thorough"), ("c08_default_normalization_point_axis", "(5,5,5)", "quick")]:
    H(_n, "C08", "fontdrasil", "coords", tier=_q, funcs=[C + "::CoordConverter::default_normalization", C + "::CoordConverter::new", "fontdrasil/src/types.rs::Axis::default_converter (delegates)"],
      bound="concrete (min,default,max) = " + _t + "; probe symbolic on the quarter-step grid in [-1050,1050]",
      oracle="default->0, min->-1 (if < default), max->+1 (if > default); in-range probe in [-1,1] with the sign of (x-default)")
for _n, _t, _q in [("c08_unmapped_3distinct", "(100,400,900)", "quick"), ("c08_unmapped_default_at_max", "(0,1,1)", "thorough")]:
    H(_n, "C08", "fontdrasil", "coords", tier=_q, funcs=[C + "::CoordConverter::unmapped", C + "::CoordConverter::new"],
      bound="concrete (min,default,max) = " + _t + "; probe symbolic on the quarter-step grid", oracle="identity user->design inside the range; default->0, min->-1, max->+1")
H("c08_user_coord_to_fixed_in_range", ["C08", "C19"], "fontdrasil", "coords", flags=CHECKED_FLAGS, funcs=[C + "::From<UserCoord> for Fixed"],
  bound="any f64 in (-32768, 32767)", oracle="stored 16.16 value within half a step; integers exact")
H("c08_f2dot14_exact_on_grid", "C08", "fontdrasil", "coords", funcs=[C + "::Coord<NormalizedSpace>::to_f2dot14"],
  bound="k/4 grid in [-1,1]", oracle="2.14 conversion exact")

F = "fontir/src/feature_variations.rs"
for _n, _sh, _t in [("c16_overlay_1ax_w_onto_w", "self{wght} onto other{wght}", "quick"), ("c16_overlay_1ax_w_onto_none", "self{wght} onto other{}", "quick"),
                    ("c16_overlay_1ax_none_onto_w", "self{} onto other{wght}", "quick"), ("c16_overlay_1ax_none_onto_none", "self{} onto other{}", "quick"),
                    ("c16_overlay_2ax_w_onto_wd", "self{wght} onto other{wght,wdth}", "thorough"), ("c16_overlay_2ax_wd_onto_w", "self{wght,wdth} onto other{wght}", "thorough"),
                    ("c16_overlay_2ax_wd_onto_wd", "self{wght,wdth} onto other{wght,wdth}", "thorough"), ("c16_overlay_2ax_w_onto_d", "self{wght} onto other{wdth}", "thorough"),
                    ("c16_overlay_2ax_d_onto_wd", "self{wdth} onto other{wght,wdth}", "thorough"), ("c16_overlay_2ax_wd_onto_d", "self{wght,wdth} onto other{wdth}", "thorough"),
                    ("c16_overlay_2ax_wd_onto_none", "self{wght,wdth} onto other{}", "thorough"), ("c16_overlay_2ax_none_onto_wd", "self{} onto other{wght,wdth}", "thorough")]:
    H(_n, "C16", "fontir", "feature_variations", tier=_t, funcs=[F + "::NBox::overlay_onto", F + "::NBox::{insert,get,iter}"],
      bound="shape " + _sh + "; bounds on the k/4 grid with lo<hi, probe on the k/8 grid; unwind 4",
      oracle="nothing of other lost; intersection exact and inside both; remainder inside other; no remainder => other inside self; a cut remainder shares no interior point with the intersection")
H("c16_nbox_insert_get_cleanup", "C16", "fontir", "feature_variations", funcs=[F + "::NBox::{insert,get,cleanup}"],
  bound="one axis, optional bounds on the k/4 grid in [-2,2]", oracle="insert clamps to [-1,1]; cleanup drops exactly full-range axes and keeps the region")
for _a, _b in [(1, 1), (1, 2), (2, 1), (2, 2), (3, 1), (1, 3), (1, 0)]:
    H("c16_rank_key_%dw_%dw" % (_a, _b), "C16", "fontir", "feature_variations", funcs=[F + "::Rank::sort_key"],
      bound="rank word counts %d and %d concrete, all bits symbolic" % (_a, _b), oracle="popcount(a) > popcount(b) => key(a) < key(b)")
for _a, _b in [(1, 1), (1, 2), (2, 1), (2, 2), (0, 1), (2, 0)]:
    H("c16_rank_arith_%dw_%dw" % (_a, _b), "C16", "fontir", "feature_variations",
      funcs=[F + "::Rank::{bitor,bitor_assign,eq,is_all_zeros,first_bit_is_set,right_shift_one}"],
      bound="rank word counts %d and %d concrete, all bits symbolic" % (_a, _b), oracle="agrees with u128 arithmetic")
H("c16_rank_new_is_single_bit", "C16", "fontir", "feature_variations", funcs=[F + "::Rank::new"], bound="rule index 0..127", oracle="value == 1 << i")

G = "fontbe/src/glyphs.rs"
M = "fontbe/src/metrics_and_limits.rs"
H("c19_component_offset_fits_or_errs", ["C19", "C03"], "fontbe", "glyphs", flags=CHECKED_FLAGS, funcs=[G + "::create_component_ref_gid"],
  bound="offsets e,f any finite f64 with |x| < 1e9", oracle="Err, or stored offset == floor(x+0.5) exactly (never clamped)")
H("c19_component_2x2_within_f2dot14", "C19", "fontbe", "glyphs", flags=CHECKED_FLAGS, funcs=[G + "::create_component_ref_gid"],
  bound="scale a any f64 in [-2,2] (the range fontir's decomposition guard lets through)", oracle="stored 2.14 value within half a step, +2.0 stored as the largest 2.14 value")
H("c19_composite_delta_not_clamped", ["C19", "C03"], "fontbe", "glyphs", flags=CHECKED_FLAGS, funcs=[G + "::process_composite_deltas"],
  bound="one delta, dx,dy any f64 inside the i16 range", oracle="stored delta within 0.5 of the input; optional <=> rounds to (0,0)")
H("c19_composite_delta_beyond_i16", "C19", "fontbe", "glyphs", flags=CHECKED_FLAGS, funcs=[G + "::process_composite_deltas"],
  bound="dx any finite f64 beyond the i16 range (|x| < 1e9)", oracle="stored delta within 0.5 of the input (known finding: it saturates)")
H("c19_os2_apply_metrics", ["C19", "C04"], "fontbe", "os2", flags=CHECKED_FLAGS, funcs=["fontbe/src/os2.rs::apply_metrics"],
  bound="17 metrics, any f64 inside the range of their i16/u16 field", oracle="each OS/2 field == floor(own metric + 0.5)")
H("c19_os2_metric_beyond_i16", "C19", "fontbe", "os2", flags=CHECKED_FLAGS, funcs=["fontbe/src/os2.rs::apply_metrics"],
  bound="cap height any finite f64 beyond the i16 range (|x| < 1e9)", oracle="stored value within 0.5 of the metric (known finding: it saturates)")
H("c19_width_class_total", "C19", "fontdrasil", "types", flags=CHECKED_FLAGS, funcs=["fontdrasil/src/types.rs::WidthClass::try_from"],
  bound="every u16", oracle="Ok iff 1..=9 with the value preserved; no panic (overflow checks on)")
I2 = "fontir/src/ir.rs"
H("c19_2x2_overflow_guard", "C19", "fontir-wide", "ir", funcs=[I2 + "::has_overflowing_2x2_transforms"],
  bound="one master, one component, all six affine coefficients any finite f64 with |v| < 1e6", oracle="true iff one of the four 2x2 coefficients lies outside [-2, 2]")
H("c03_2x2_consistency_guard", "C03", "fontir-wide", "ir", funcs=[I2 + "::has_consistent_2x2_transforms"],
  bound="two masters with one component each, base equal or different (symbolic), all twelve coefficients any finite f64", oracle="true iff same base and the same four 2x2 coefficients")
H("c03_2x2_consistency_component_count", "C03", "fontir-wide", "ir", funcs=[I2 + "::has_consistent_2x2_transforms"],
  bound="two masters with 1 and 2 components", oracle="false")
H("c19_can_reuse_metrics_beyond_u16", "C19", "fontbe", "glyphs", flags=CHECKED_FLAGS, funcs=[G + "::can_reuse_metrics"],
  bound="two advances, any finite f64 >= 65535.5", oracle="equal only if the rounded advances are equal (known finding: both saturate to 65535)")
H("c19_can_reuse_metrics_width_not_clamped", "C19", "fontbe", "glyphs", flags=CHECKED_FLAGS, funcs=[G + "::can_reuse_metrics"],
  bound="advances any f64 in [0,65535.5), x shift any finite |x|<1e6", oracle="true iff the rounded advances are equal and the x shift rounds to 0")
H("c17_metrics_builder_3", "C17", "fontbe", "metrics_and_limits", funcs=[M + "::MetricsBuilder::update", M + "::MetricsBuilder::build"],
  bound="3 glyphs: advance u16, lsb i16, has-contours bool, extent u16 all symbolic", oracle="hmtx reconstruction exact and minimal; advance max, min lsb/rsb, max extent equal a straightforward fold over non-empty glyphs")
H("c17_metrics_builder_4", "C17", "fontbe", "metrics_and_limits", tier="thorough", funcs=[M + "::MetricsBuilder::update", M + "::MetricsBuilder::build"],
  bound="4 glyphs, all inputs symbolic", oracle="as c17_metrics_builder_3")
H("c17_metrics_builder_1", "C17", "fontbe", "metrics_and_limits", funcs=[M + "::MetricsBuilder::update", M + "::MetricsBuilder::build"],
  bound="1 glyph, all inputs symbolic", oracle="as c17_metrics_builder_3")
O2 = "fontbe/src/os2.rs"
H("c17_os2_unicode_table_sorted_disjoint", "C17", "fontbe", "os2", funcs=[O2 + "::UNICODE_RANGES"],
  bound="the concrete table (169 rows); unwind 180", oracle="rows well-formed, sorted, pairwise disjoint, bits < 128 (what the binary search relies on)")
H("c17_os2_unicode_range_bits_of_codepoint", "C17", "fontbe", "os2", funcs=[O2 + "::add_unicode_range_bits"],
  bound="any codepoint <= 0x10FFFF; unwind 180", oracle="set == {bit of the row containing it (linear-scan reference)} + {57 iff beyond the BMP}")
H("c17_os2_unicode_range_packing", "C17", "fontbe", "os2", funcs=[O2 + "::apply_unicode_range"],
  bound="two assigned bits < 128, symbolic probe bit", oracle="word b/32 bit b%32 set iff b assigned")
H("c17_os2_codepage_range_packing", "C17", "fontbe", "os2", funcs=[O2 + "::apply_codepage_range"],
  bound="two assigned bits < 64, symbolic probe bit", oracle="word b/32 bit b%32 set iff b assigned; both fields present")
H("c17_os2_min_max_char_index", "C17", "fontbe", "os2", funcs=[O2 + "::apply_min_max_char_index"],
  bound="three codepoints <= 0x10FFFF", oracle="first = min capped at 0xFFFF, last = max capped at 0xFFFF")
H("c17_glyph_limits_max_per_field", "C17", "fontbe", "metrics_and_limits", funcs=[M + "::GlyphLimits::max"],
  bound="two limit triples, all six u16 symbolic", oracle="field-wise maximum (maxCompositePoints / maxCompositeContours / maxComponentDepth may come from different glyphs)")
H("c17_max_context_of_rule", "C17", "fontbe", "os2::max_context", funcs=["fontbe/src/os2/max_context.rs::max_context_of_rule"],
  bound="input and lookahead counts symbolic (sum < 65535)", oracle="contextual = input; chained = input + lookahead; reverse chained = 1 + lookahead")
H("c19_metrics_update_no_overflow", ["C19", "C17"], "fontbe", "metrics_and_limits", flags=CHECKED_FLAGS, funcs=[M + "::MetricsBuilder::update"],
  bound="advance u16, lsb i16 full range, extent 0..65535", oracle="no arithmetic overflow; rsb/extent clamp to i16 as documented")

L = "fea-rs/src/parse/lexer.rs"
_lexfuncs = [L + "::Lexer::next_token", L + "::Lexer::{whitespace,comment,string,hyphen_or_minus,number,cid,glyph_class_name,eat_ident,ident,path}",
             L + "::ExpectingPath::transition", "fea-rs/src/parse/lexer/lexeme.rs::Kind::from_keyword"]
_lexoracle = "every token consumes input; token lengths track the cursor and sum to the window; Eof (empty) only at the end; terminates within N+1 tokens; no panic"
H("c13_lexer_lossless_ascii_n3", "C13", "fea-rs", "parse::lexer", termination_claim=True, funcs=_lexfuncs, bound="every window of 3 ASCII bytes (0x00..0x7F), every lexer state (2 flags x 3 path states); unwind 7", oracle=_lexoracle)
H("c13_lexer_lossless_ascii_n4", "C13", "fea-rs", "parse::lexer", termination_claim=True, funcs=_lexfuncs, bound="every window of 4 ASCII bytes, every lexer state; unwind 7", oracle=_lexoracle)
H("c13_lexer_lossless_ascii_n5", "C13", "fea-rs", "parse::lexer", tier="thorough", termination_claim=True, funcs=_lexfuncs, bound="every window of 5 ASCII bytes, every lexer state; unwind 8", oracle=_lexoracle)
H("c13_lexer_char_boundaries_2byte", "C13", "fea-rs", "parse::lexer", termination_claim=True, funcs=_lexfuncs, bound="ASCII byte, one 2-byte char (C2..DF 80..BF), ASCII byte; every lexer state",
  oracle="as above, and no token boundary falls inside the 2-byte char")
TS = "fea-rs/src/parse/lexer/token_set.rs"
H("c13_token_set_kinds_fit_the_mask", "C13", "fea-rs", "parse::lexer::token_set", funcs=[TS + "::mask", "fea-rs/src/parse/lexer/lexeme.rs::Kind"],
  bound="every Kind (symbolic discriminant 0..=Tombstone)", oracle="every discriminant < 128; mask(k) is the single bit k (no shift overflow: dev panic / release aliasing)")
H("c13_token_set_membership_exact", "C13", "fea-rs", "parse::lexer::token_set", funcs=[TS + "::TokenSet::{new,add,union,contains,from}"],
  bound="four symbolic Kinds", oracle="contains(p) <=> p was put in, for singleton / new / add / union / EMPTY")
H("c13_token_set_recovery_sets", "C13", "fea-rs", "parse::lexer::token_set", funcs=[TS + "::TokenSet::{SEMI,SEMI_RBRACE,TOP_SEMI,TOP_AND_FEATURE,RULES,STATEMENT,FEATURE_STATEMENT}"],
  bound="one symbolic Kind", oracle="the composed recovery sets are the unions their names say; Eof and trivia are in none of them")
H("c13_expecting_path_transitions", "C13", "fea-rs", "parse::lexer", funcs=[L + "::ExpectingPath::transition"], bound="3 states x 5 token kinds",
  oracle="InPath is entered only by `(` directly after `include` (whitespace keeps the armed state)")

A = "fontir/src/ir.rs::AnchorKind::new"
H("c10_anchor_kind_len3", "C10", "fontir", "ir", mem_gb=12, funcs=[A], bound="every 3-byte name over {_, a, 0, 1, 2}; unwind 8",
  oracle="independent classification: _NN component marker (0 rejected), __N rejected, _x mark(x), x_N ligature(x,N) (0 rejected), else base(name)")
for _n in ["c10_group_of_mark_anchor", "c10_group_of_base_anchor", "c10_group_of_ligature_anchor"]:
    H(_n, "C10", "fontir", "ir", tier="thorough", funcs=[A], bound="group names g of 2 bytes over {a,b}x{a,b,1}", oracle="the anchor built from g carries group name g (so _g, g and g_N meet)")
for _n, _d in [("c10_rename_entry", "'entry', both mirror signs symbolic"), ("c10_rename_exit", "'exit', both signs symbolic"), ("c10_rename_center", "'center', both signs symbolic"),
               ("c10_rename_top_y", "'top', y sign symbolic, x not mirrored"), ("c10_rename_mark_bottom_y", "'_bottom', y sign symbolic"),
               ("c10_rename_topleft_x", "'topleft', x sign symbolic, y not mirrored"), ("c10_rename_topleft_y", "'topleft', y sign symbolic")]:
    H(_n, "C10", "fontir", "propagate_anchors", funcs=["fontir/src/propagate_anchors.rs::rename_anchor_for_scale"],
      bound="anchor name " + _d + "; symbolic scale components any finite f64 with |v| < 1e6", oracle="mirrored in y: top<->bottom; in x: left<->right and entry<->exit; otherwise unchanged")
H("c10_caret_and_cursive_names", "C10", "fontir", "ir", mem_gb=12, funcs=[A], bound="caret_/vcaret_ + one byte of {0,1,2,a}; entry; exit", oracle="caret/vcaret with index (default 1, 0 rejected); entry/exit cursive")

O = "fontdrasil/src/orchestration.rs"
H("c02_access_check_leaf", "C02", "fontdrasil-c4", "orchestration", funcs=[O + "::Access::check"], bound="I = TestId (A, B, C(0..2)); rule id and probe symbolic",
  oracle="Specific by equality, Variant by discriminant, None/Unknown nothing, All everything")
H("c02_access_builder_union_3", "C02", "fontdrasil-c4", "orchestration", funcs=[O + "::AccessBuilder::{add_access,variant,specific_instance,build}", O + "::Access::check", O + "::AccessType::check"],
  bound="3 additions, each variant/specific symbolic, ids and probe symbolic over TestId; container capacity 4", oracle="check(q) <=> q matches one of the additions")
H("c02_access_builder_small", "C02", "fontdrasil-c4", "orchestration", funcs=[O + "::AccessBuilder::add_access", O + "::Access::check"],
  bound="0, 1 and 2 additions", oracle="exactly the union; the first entry survives the upgrade to a Set")
H("c02_default_write_access", "C02", "fontdrasil-c4", "orchestration", funcs=[O + "::Work::write_access (default)", O + "::Work::read_access (default)"],
  bound="work id symbolic, also_completes of 0..2 symbolic ids", oracle="write access admits exactly own id + also_completes; default read access admits nothing")
H("c02_acl_silent_when_admitted", "C02", "fontdrasil-c4", "orchestration", funcs=[O + "::assert_access_one", O + "::assert_access_many"],
  bound="2-entry read rule, admitted probe", oracle="no panic")
H("c02_acl_panics_when_not_admitted", "C02", "fontdrasil-c4", "orchestration", funcs=[O + "::assert_access_one"],
  bound="specific write rule, any other id", oracle="the illegal-write panic is raised (kani::should_panic)")

IR = "fontir/src/ir.rs"
H("c04_phantom_points_horizontal", "C04", "fontir", "ir", flags=CHECKED_FLAGS, funcs=[IR + "::GlyphInstance::add_phantom_points"],
  bound="advance any f64 in [0, 65535.5); explicit height/vertical origin any finite f64", oracle="phantoms = (0,0), (floor(advance+0.5),0), (0,0), (0,0)")
H("c04_phantom_points_vertical", "C04", "fontir", "ir", flags=CHECKED_FLAGS, funcs=[IR + "::GlyphInstance::{add_phantom_points,height,vertical_origin}"],
  bound="typo ascender/descender, optional own height and vertical origin: any finite f64 whose effective values fit u16 / i16", oracle="top = rounded own-or-ascender, bottom = top - rounded own-or-(ascender-descender)")

PROPERTIES = {
    "C04": {"outside": "HVAR/VVAR/MVAR assembly (AdvanceDeltas, GlobalMetricsBuilder::build, mvar/hvar jobs: f64 code over IR containers and Context), hhea/post/vhea default fields (rounded inline in job bodies), "
                       "sparse glyph sub-models, advances beyond 65535 (C19 known finding)",
            "assumptions": ["kernel-level claim: phantom points, OS/2 default-location metric fields, and the delta arithmetic (the real generic deltas/interpolate on symbolic integer master values)"]},
    "C02": {"outside": "everything about scheduling: Workload::can_run / is_dep_fulfilled (did not fit CBMC in three attempts: 15-17 GB), handle_success access rewriting, real threads, atomics ordering, "
                       "channel delivery, dynamic job creation, and whether each job's read_access declares everything exec reads",
            "assumptions": ["kernel-level claim: the access-rule matcher only, for the instantiation I = TestId; production ids differ in Eq/discriminant (derived / hand-written matches)"]},
    "C10": {"outside": "anchor coordinates at masters (their delta arithmetic is C07), propagation through composites, mark-group and lookup construction (fontbe/features/marks.rs: name-keyed maps in a job body), GDEF classes",
            "assumptions": ["kernel-level claim: the anchor name -> kind function only"]},
    "C13": {"outside": "the parser proper (Parser, AstSink, grammar, contextual-rule reparse), include resolution and the include graph (IncludeGraph::validate exhausted CBMC at 21-23 GB), "
                       "diagnostics ranges, validation; windows longer than 5 bytes; chars of 3 and 4 bytes",
            "assumptions": ["'the tree's token texts concatenate to the input' is decided as 'the lexeme lengths the tree is built from sum to the input length, at char boundaries'"]},
    "C19": {"outside": "narrowing sites inside job bodies (waived, listed in the site scan), outline point coordinates (write-fonts/kurbo), kerning/anchor values inside fea-rs builders",
            "assumptions": ["overflow and panic checks ON for the C19 harnesses (dev profile); native replay runs dev and release"]},
    "C17": {"outside": "maxp composite maxima, composite bounding boxes, head bbox union, loca format, average char width, first/last char index, max context: assembled in job bodies over Context",
            "assumptions": []},
    "C03": {"outside": "cubic->quadratic conversion (kurbo), point-stream construction and IUP (write-fonts), sub-model selection and gvar assembly (job bodies)",
            "assumptions": ["the claim is the fontc-owned arithmetic: VariationModel delta round trip in the 2-D instantiation + the two composite-path leaf kernels"]},
    "C16": {"outside": "rule layouts beyond the enumerated ones (BV: > 3 rules on 2 axes, > 2 rules on the k/2 grid with 2 axes, > 3 axes, off-grid bounds, several boxes per region outside the catalog); "
                       "points lying exactly on a bound of a rule box (there both fontTools and fontc let the first record win; measure zero); more than 2 axes in the CBMC box step; to_condition_set; "
                       "design-space normalisation of conditions in fontbe; record sorting in fea-rs; lookup construction",
            "assumptions": ["BV: rule layouts are enumerated, the quantifier over designspace points is decided by z3 and cvc5 (LRA); the reference semantics ('first rule in source order containing the point wins per glyph', "
                            "'first output box containing the point decides') is the 60-line encoder in kit/boxval/src/main.rs",
                            "BV known finding: a layout whose output deviates is reported as KNOWN only if a second query proves for all points that the output equals the reference on the fontTools-merged rule list"]},
    "C08": {"outside": "fontbe::avar::to_segment_map and the fvar record fields (did not fit CBMC: > 16 GB), named-instance ranges, CoordConverter::new with symbolic DESIGN values (conditional pushes make map lengths symbolic: > 28 GB), off-grid values",
            "assumptions": ["design-side selection logic of CoordConverter::new is covered on a catalog of 8 concrete design shapes only"]},
    "C07": {"outside": "layouts off the k/4 grid, > 2 axes in K harnesses, LocationSortingHat::key_for with symbolic locations, new_extrapolating",
            "assumptions": []},
}
SV_PROPERTIES = {"C07", "C03", "C04"}
BV_PROPERTIES = {"C16"}
SCAN_PROPERTIES = {"C19"}
