"""Groups (one overlay + one Kani target dir each), the harness registry and per-property metadata."""

# Kani flags of the functional harnesses: memory-safety and overflow instrumentation off
# (the C19 harnesses keep both on); unwinding assertions are ALWAYS on.
FUNCTIONAL_FLAGS = ["--no-memory-safety-checks", "--no-overflow-checks"]
CHECKED_FLAGS = []

PARALLEL = {"quick": 6, "thorough": 3}
MEM_GB = {"quick": 8, "thorough": 16}
TIMEOUT_S = {"quick": 900, "thorough": 3600}

ASSUMPTIONS = [
    "trusted: rustc + Kani 0.68 MIR->goto translation, CBMC 6.11, CaDiCaL",
    "T1: std/indexmap containers replaced by array-backed verif_shim containers (capacity 2-4, per group) in the overlay; differential self-test against std on every run",
    "T2: slice sorts replaced by a stable insertion sort (VSort); differential self-test against std on every run",
    "T3: alloc::fmt::format stubbed where harnesses name it (error-message builders only)",
    "verdicts are bounded: they hold for the shapes, grids and unwinding bounds recorded per harness; unwinding assertions are on",
    "counterexamples are replayed natively against the unshimmed code (dev and release) before they are reported",
]

GROUPS = {
    "fontdrasil": {
        "package": "fontdrasil",
        "t1_crates": ["fontdrasil"],
        "t2_crates": ["fontdrasil"],
        "shim_features": ["cap2"],
        "harness": {
            "fontdrasil/src/variations.rs": "harness/fontdrasil/variations.rs",
        },
    },
}

HARNESSES = []


def H(name, props, group, module, tier="quick", **kw):
    d = {"name": name, "props": props if isinstance(props, list) else [props], "group": group, "module": module, "tier": tier}
    d.update(kw)
    HARNESSES.append(d)


V = "fontdrasil/src/variations.rs"
H("c07_tent_validate_full_f64", "C07", "fontdrasil", "variations",
  funcs=[V + "::Tent::new", V + "::Tent::validate"],
  bound="three unconstrained finite f64 (comparisons only)",
  oracle="validate() == (min<=peak<=max and not min<0<max); Tent::new keeps the peak and zeroes the far side")
H("c07_scalar_leaf", "C07", "fontdrasil", "variations",
  funcs=[V + "::VariationRegion::scalar_at_with_args", V + "::Tent::new", V + "::VariationRegion::insert"],
  bound="one axis, min<=peak<=max and probe on the k/4 grid in [-1,1]; unwind 6",
  oracle="scalar in [0,1], 1 at the peak, 0 outside the open support, >0 inside")
H("c07_scalar_invalid_tent_ignored", "C07", "fontdrasil", "variations",
  funcs=[V + "::VariationRegion::scalar_at_with_args", V + "::Tent::validate"],
  bound="one axis, invalid (min,peak,max) and probe on the k/4 grid; unwind 6",
  oracle="an invalid tent contributes factor 1")
H("c07_regions_for_1axis_3", "C07", "fontdrasil", "variations",
  funcs=[V + "::regions_for", V + "::Tent::new"],
  bound="1 axis, default + 2 masters with symbolic k/4 coordinates; unwind 5",
  oracle="every tent valid; peak = master coordinate; min/max = axis extreme on the master's side; default all-zero")
H("c07_regions_for_2axis_3", "C07", "fontdrasil", "variations",
  funcs=[V + "::regions_for", V + "::Tent::new"],
  bound="2 axes, default + 2 masters with symbolic k/4 coordinates; unwind 5",
  oracle="as 1-axis, per axis")
H("c07_influence_pair_1axis", "C07", "fontdrasil", "variations",
  funcs=[V + "::master_influence", V + "::VariationRegion::scalar_at_with_args"],
  bound="pair (prev,cur) of regions_for-shaped regions on 1 axis, symbolic k/4 values; unwind 6",
  oracle="trimmed tent valid, keeps peak, only shrinks; prev's location outside the trimmed open support")
H("c07_influence_pair_2axis", "C07", "fontdrasil", "variations", tier="thorough",
  funcs=[V + "::master_influence"],
  bound="pair of regions active on both of 2 axes, symbolic k/4 values; unwind 6",
  oracle="trimmed tents valid, keep peaks, only shrink; prev's location outside the trimmed open support on some axis")
H("c07_delta_weights_pair", "C07", "fontdrasil", "variations",
  funcs=[V + "::delta_weights", V + "::VariationRegion::scalar_at_with_args"],
  bound="2 locations/regions on 1 axis, symbolic k/4 values; unwind 6",
  oracle="earlier master listed <=> its scalar at the later location != 0, weight == scalar")

PROPERTIES = {
    "C07": {"outside": "layouts off the k/4 grid, > 2 axes in K harnesses, LocationSortingHat::key_for with symbolic locations, new_extrapolating",
            "assumptions": []},
}
SV_PROPERTIES = {"C07", "C03"}
SCAN_PROPERTIES = set()
