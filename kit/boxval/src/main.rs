//! BV engine — solver validation of `overlay_feature_variations` over ALL designspace points (DESIGN.md §5 C16 "BV").
//!
//! For a concrete list of conditional-substitution rules (enumerated: which axes each rule box constrains and its
//! bounds on a grid) the REAL `fontir::feature_variations::overlay_feature_variations` (unmodified /repo/fontir, public API)
//! runs natively and returns its ordered list of (box, substitution maps). z3 AND cvc5 then decide, for every point p of the
//! designspace at once (p is a vector of real variables in [-1,1]):
//!     exists p such that what the FIRST output box containing p applies (per glyph: the first map in its list that has the
//!     glyph) differs from what the source rules say at p (per glyph: the first rule, in source order, whose region contains p
//!     and that substitutes the glyph)?
//! `unsat` from both = the output is equivalent to the rules at every point, for that rule layout. `sat` = a concrete point,
//! replayed natively on f64 before it is reported.
//!
//!   boxval run --tier quick|thorough --seed N --workers W --out report.json --replay-dir DIR [--budget S]
//!   boxval replay <replay.json>
use std::collections::BTreeMap;
use std::io::{BufRead, BufReader, Write};
use std::process::{Child, ChildStdin, ChildStdout, Command, Stdio};
use std::sync::{Arc, Mutex};
use std::time::Instant;

use fontdrasil::coords::NormalizedCoord;
use fontdrasil::types::GlyphName;
use fontir::feature_variations::{overlay_feature_variations, NBox, Region};
use write_fonts::types::Tag;

const TAGS: [&[u8; 4]; 3] = [b"wght", b"wdth", b"opsz"];

/// one box: per axis either unconstrained or [lo, hi]
type BoxSpec = Vec<Option<(f64, f64)>>;

#[derive(Clone, Debug)]
struct Layout {
    axes: usize,
    /// per rule: its region (list of boxes) and its substitutions (glyph -> target)
    rules: Vec<(Vec<BoxSpec>, Vec<(String, String)>)>,
    origin: String,
}

fn default_subs(i: usize) -> Vec<(String, String)> {
    // every rule substitutes the shared glyph `a` by its own target (precedence is observable) and one glyph of its own
    vec![("a".to_string(), format!("a.r{i}")), (format!("g{i}"), format!("g{i}.alt"))]
}

fn box_options(axes: usize, grid: &[f64]) -> Vec<BoxSpec> {
    let mut per_axis: Vec<Option<(f64, f64)>> = vec![None];
    for (i, lo) in grid.iter().enumerate() {
        for hi in &grid[i + 1..] {
            // the full range [-1, 1] is what "unconstrained" already is
            if !(*lo == -1.0 && *hi == 1.0) { per_axis.push(Some((*lo, *hi))); }
        }
    }
    let mut out: Vec<BoxSpec> = vec![vec![]];
    for _ in 0..axes {
        let mut next = Vec::new();
        for b in &out { for o in &per_axis { let mut nb = b.clone(); nb.push(*o); next.push(nb); } }
        out = next;
    }
    out
}

fn product_layouts(axes: usize, grid: &[f64], n_rules: usize, tag: &str, out: &mut Vec<Layout>) {
    let opts = box_options(axes, grid);
    let mut idx = vec![0usize; n_rules];
    loop {
        let rules = idx.iter().enumerate().map(|(i, k)| (vec![opts[*k].clone()], default_subs(i))).collect();
        out.push(Layout { axes, rules, origin: format!("{tag}: {axes} axes, {n_rules} rules, one box each") });
        let mut k = 0;
        loop {
            if k == n_rules { return; }
            idx[k] += 1;
            if idx[k] < opts.len() { break; }
            idx[k] = 0;
            k += 1;
        }
    }
}

fn catalog() -> Vec<Layout> {
    let mut v = Vec::new();
    let b1 = |lo: f64, hi: f64| -> BoxSpec { vec![Some((lo, hi))] };
    let b2 = |a: Option<(f64, f64)>, b: Option<(f64, f64)>| -> BoxSpec { vec![a, b] };
    // regions made of two boxes (designspace rules with several condition sets)
    v.push(Layout { axes: 1, rules: vec![(vec![b1(-1.0, -0.5), b1(0.5, 1.0)], default_subs(0)), (vec![b1(-0.75, 0.75)], default_subs(1))], origin: "catalog: two-box region under a bridging rule".into() });
    v.push(Layout { axes: 2, rules: vec![(vec![b2(Some((0.0, 0.5)), None), b2(None, Some((0.0, 0.5)))], default_subs(0)), (vec![b2(Some((0.25, 1.0)), Some((0.25, 1.0)))], default_subs(1)), (vec![b2(None, None)], default_subs(2))], origin: "catalog: L-shaped region, nested rule, catch-all".into() });
    v.push(Layout { axes: 2, rules: vec![(vec![b2(Some((0.0, 1.0)), Some((0.0, 1.0)))], default_subs(0)), (vec![b2(Some((0.0, 1.0)), Some((0.0, 1.0)))], default_subs(1)), (vec![b2(Some((0.5, 1.0)), None)], default_subs(2))], origin: "catalog: two rules on the same region (the earlier one wins on the shared glyph)".into() });
    // identical substitutions on different regions (merged into one rule by the pre-pass); no conflicting keys
    v.push(Layout { axes: 1, rules: vec![(vec![b1(0.0, 0.25)], vec![("x".into(), "x.alt".into())]), (vec![b1(0.125, 0.75)], default_subs(1)), (vec![b1(0.5, 1.0)], vec![("x".into(), "x.alt".into())])], origin: "catalog: same substitutions on two regions".into() });
    // more than 64 rules: ranks of more than one word (the two defects repaired in ff06873 / 0499100 lived here)
    for n in [65usize, 66, 130] {
        let mut rules = Vec::new();
        rules.push((vec![vec![Some((0.0, 0.5)), None, None]], default_subs(0)));
        for i in 1..n - 1 {
            // fillers: nested slabs on the third axis, all substituting the same glyph `f` by their own target (few glyphs keep the
            // query small; precedence among the nested fillers is checked as well)
            let hi = -1.0 + (i as f64) / 128.0;
            rules.push((vec![vec![None, None, Some((-1.0, hi))]], vec![("f".to_string(), format!("f.alt{i}"))]));
        }
        rules.push((vec![vec![None, Some((0.0, 0.5)), None]], default_subs(n - 1)));
        if n == 66 { rules.push((vec![vec![Some((0.25, 1.0)), Some((0.25, 1.0)), None]], default_subs(n))); }
        v.push(Layout { axes: 3, rules, origin: format!("catalog: {n} rules (multi-word ranks)") });
    }
    v
}

fn layouts_for(tier: &str) -> Vec<Layout> {
    let half = [-1.0, -0.5, 0.0, 0.5, 1.0];
    let unit = [-1.0, 0.0, 1.0];
    let mut v = catalog();
    product_layouts(1, &half, 1, "grid k/2", &mut v);
    product_layouts(1, &half, 2, "grid k/2", &mut v);
    product_layouts(1, &half, 3, "grid k/2", &mut v);
    product_layouts(2, &half, 2, "grid k/2", &mut v);
    product_layouts(2, &unit, 3, "grid k/1", &mut v);
    if tier == "thorough" {
        product_layouts(1, &half, 4, "grid k/2", &mut v);
        product_layouts(3, &unit, 2, "grid k/1", &mut v);
        product_layouts(2, &unit, 4, "grid k/1", &mut v);
        product_layouts(1, &[-1.0, -0.75, -0.5, -0.25, 0.0, 0.25, 0.5, 0.75, 1.0], 2, "grid k/4", &mut v);
    }
    v
}

// ------------------------------------------------------------------ the real code, natively
type Output = Vec<(Vec<(usize, f64, f64)>, Vec<Vec<(String, String)>>)>;

fn tag(i: usize) -> Tag { Tag::new(TAGS[i]) }

fn run_real(l: &Layout) -> Output {
    let input: Vec<(Region, BTreeMap<GlyphName, GlyphName>)> = l.rules.iter().map(|(boxes, subs)| {
        let region: Vec<NBox> = boxes.iter().map(|b| {
            let mut nb = NBox::default();
            for (i, c) in b.iter().enumerate() {
                if let Some((lo, hi)) = c { nb.insert(tag(i), Some(NormalizedCoord::new(*lo)), Some(NormalizedCoord::new(*hi))); }
            }
            nb
        }).collect();
        let subs: BTreeMap<GlyphName, GlyphName> = subs.iter().map(|(k, v)| (GlyphName::new(k), GlyphName::new(v))).collect();
        (Region::from(region), subs)
    }).collect();
    overlay_feature_variations(input).into_iter().map(|(nbox, maps)| {
        let bounds = nbox.iter().map(|(t, (lo, hi))| {
            let ax = (0..TAGS.len()).find(|i| tag(*i) == t).expect("axis of the layout");
            (ax, lo.to_f64(), hi.to_f64())
        }).collect();
        let maps = maps.into_iter().map(|m| m.into_iter().map(|(k, v)| (k.to_string(), v.to_string())).collect()).collect();
        (bounds, maps)
    }).collect()
}

/// The reference the KNOWN FINDING is measured against: fontTools' `overlayFeatureVariations` pre-pass, which fontc follows,
/// merges rules that have the SAME region into one rule that sits at the position of the LAST of them (inside the merged rule the
/// earlier rule still wins). A rule that lies between two same-region rules and overlaps them thereby overtakes the earlier one.
/// `ft_merged` rewrites the rule list that way; where it changes nothing the strict reference and this one coincide.
fn ft_merged(l: &Layout) -> Layout {
    let mut merged: Vec<(Vec<BoxSpec>, Vec<(String, String)>)> = Vec::new();
    for (boxes, subs) in l.rules.iter().rev() {
        if let Some(e) = merged.iter_mut().find(|(b, _)| b == boxes) {
            for (k, v) in subs { if let Some(x) = e.1.iter_mut().find(|(kk, _)| kk == k) { x.1 = v.clone(); } else { e.1.push((k.clone(), v.clone())); } }
        } else {
            merged.push((boxes.clone(), subs.clone()));
        }
    }
    merged.reverse();
    Layout { axes: l.axes, rules: merged, origin: l.origin.clone() }
}
fn has_same_region_rules(l: &Layout) -> bool {
    (0..l.rules.len()).any(|i| (i + 1..l.rules.len()).any(|j| l.rules[i].0 == l.rules[j].0))
}

/// reference semantics on a concrete point (used for the native replay of a solver model)
fn expected_at(l: &Layout, p: &[f64], skip_rule0: bool) -> BTreeMap<String, String> {
    let mut m = BTreeMap::new();
    for (i, (boxes, subs)) in l.rules.iter().enumerate() {
        if skip_rule0 && i == 0 { continue; }
        let inside = boxes.iter().any(|b| b.iter().enumerate().all(|(ax, c)| c.map_or(true, |(lo, hi)| lo <= p[ax] && p[ax] <= hi)));
        if inside { for (k, v) in subs { m.entry(k.clone()).or_insert(v.clone()); } }
    }
    m
}
fn output_at(out: &Output, p: &[f64]) -> BTreeMap<String, String> {
    let mut m = BTreeMap::new();
    for (bounds, maps) in out {
        if bounds.iter().all(|(ax, lo, hi)| *lo <= p[*ax] && p[*ax] <= *hi) {
            for mp in maps { for (k, v) in mp { m.entry(k.clone()).or_insert(v.clone()); } }
            break;
        }
    }
    m
}
fn on_a_rule_bound(l: &Layout, p: &[f64]) -> bool {
    l.rules.iter().any(|(boxes, _)| boxes.iter().any(|b| b.iter().enumerate().any(|(ax, c)| c.map_or(false, |(lo, hi)| p[ax] == lo || p[ax] == hi))))
}

// ------------------------------------------------------------------ SMT
fn rational(c: f64) -> String {
    // all bounds are dyadic with small denominators: exact as n/1024
    let n = (c * 1024.0).round();
    assert!((n / 1024.0 - c).abs() == 0.0, "bound {c} is not on the 1/1024 grid");
    if n < 0.0 { format!("(- (/ {}.0 1024.0))", -n as i64) } else { format!("(/ {}.0 1024.0)", n as i64) }
}

fn emit(l: &Layout, out: &Output, skip_rule0: bool, dyadic_witness: bool) -> (String, Vec<String>) { emit_ref(l, l, out, skip_rule0, dyadic_witness) }

/// `l` = the rules as the source gives them (excluded boundary points), `r` = the rule list the reference semantics runs on
fn emit_ref(l: &Layout, r: &Layout, out: &Output, skip_rule0: bool, dyadic_witness: bool) -> (String, Vec<String>) {
    let mut s = String::from("(push 1)\n");
    let mut names = Vec::new();
    for k in 0..l.axes {
        s.push_str(&format!("(declare-const p{k} Real)\n(assert (and (<= (- 1.0) p{k}) (<= p{k} 1.0)))\n"));
        names.push(format!("p{k}"));
        if dyadic_witness { s.push_str(&format!("(declare-const w{k} Int)\n(assert (= p{k} (/ (to_real w{k}) 4096.0)))\n")); }
    }
    // outside the claim: points lying exactly on a bound of a rule box (measure zero; see DESIGN C16 BV)
    let mut bounds: Vec<Vec<f64>> = vec![vec![]; l.axes];
    for (boxes, _) in &l.rules { for b in boxes { for (ax, c) in b.iter().enumerate() { if let Some((lo, hi)) = c { for x in [*lo, *hi] { if !bounds[ax].contains(&x) { bounds[ax].push(x); } } } } } }
    for (ax, bs) in bounds.iter().enumerate() { for x in bs { s.push_str(&format!("(assert (not (= p{ax} {})))\n", rational(*x))); } }
    // targets -> integers
    let mut ids: BTreeMap<String, usize> = BTreeMap::new();
    let mut keys: Vec<String> = Vec::new();
    for (_, subs) in &r.rules { for (k, v) in subs { let n = ids.len() + 1; ids.entry(v.clone()).or_insert(n); if !keys.contains(k) { keys.push(k.clone()); } } }
    for (_, maps) in out { for m in maps { for (k, v) in m { let n = ids.len() + 1; ids.entry(v.clone()).or_insert(n); if !keys.contains(k) { keys.push(k.clone()); } } } }
    let inside = |b: &Vec<(usize, f64, f64)>| -> String {
        if b.is_empty() { "true".to_string() } else { format!("(and {} true)", b.iter().map(|(ax, lo, hi)| format!("(<= {} p{ax}) (<= p{ax} {})", rational(*lo), rational(*hi))).collect::<Vec<_>>().join(" ")) }
    };
    for (i, (boxes, _)) in r.rules.iter().enumerate() {
        let parts: Vec<String> = boxes.iter().map(|b| inside(&b.iter().enumerate().filter_map(|(ax, c)| c.map(|(lo, hi)| (ax, lo, hi))).collect())).collect();
        s.push_str(&format!("(define-fun inr{i} () Bool (or {} false))\n", parts.join(" ")));
    }
    for (i, (b, _)) in out.iter().enumerate() { s.push_str(&format!("(define-fun ino{i} () Bool {})\n", inside(b))); }
    let mut diffs = Vec::new();
    for (gi, g) in keys.iter().enumerate() {
        // expected: first rule in source order that contains p and substitutes g
        let mut e = "0".to_string();
        for (i, (_, subs)) in r.rules.iter().enumerate().rev() {
            if skip_rule0 && i == 0 { continue; }
            if let Some((_, v)) = subs.iter().find(|(k, _)| k == g) { e = format!("(ite inr{i} {} {e})", ids[v]); }
        }
        // output: the FIRST box containing p decides; inside it the first map that has g
        let mut o = "0".to_string();
        for (i, (_, maps)) in out.iter().enumerate().rev() {
            let t = maps.iter().find_map(|m| m.iter().find(|(k, _)| k == g).map(|(_, v)| ids[v])).unwrap_or(0);
            o = format!("(ite ino{i} {t} {o})");
        }
        s.push_str(&format!("(define-fun e{gi} () Int {e})\n(define-fun o{gi} () Int {o})\n"));
        diffs.push(format!("(not (= e{gi} o{gi}))"));
    }
    s.push_str(&format!("(assert (or {} false))\n", diffs.join(" ")));
    (s, names)
}

struct Solver { child: Child, stdin: ChildStdin, stdout: BufReader<ChildStdout> }
impl Solver {
    fn spawn(name: &str) -> Solver {
        let mut cmd = match name {
            "z3" => { let mut c = Command::new("/usr/bin/z3"); c.args(["-in", "-smt2", "-t:120000"]); c }
            _ => { let mut c = Command::new("cvc5"); c.args(["--lang", "smt2", "--incremental", "--produce-models", "--tlimit-per=120000"]); c }
        };
        let mut child = cmd.stdin(Stdio::piped()).stdout(Stdio::piped()).stderr(Stdio::null()).spawn().expect("spawn solver");
        let stdin = child.stdin.take().unwrap();
        let stdout = BufReader::new(child.stdout.take().unwrap());
        let mut s = Solver { child, stdin, stdout };
        s.send("(set-option :produce-models true)\n(set-logic ALL)\n");
        s
    }
    fn send(&mut self, s: &str) { self.stdin.write_all(s.as_bytes()).expect("solver stdin"); }
    fn line(&mut self) -> String {
        let mut l = String::new();
        self.stdin.flush().ok();
        self.stdout.read_line(&mut l).expect("solver stdout");
        l.trim().to_string()
    }
    fn check(&mut self) -> String { self.send("(check-sat)\n"); self.line() }
    /// integer witnesses w_k (p_k = w_k / 4096)
    fn get_ints(&mut self, n: usize) -> Option<Vec<i64>> {
        let names: Vec<String> = (0..n).map(|k| format!("w{k}")).collect();
        self.send(&format!("(get-value ({}))\n", names.join(" ")));
        let mut text = String::new();
        let mut depth = 0i32;
        loop {
            let l = self.line();
            if l.is_empty() && text.is_empty() { return None; }
            for ch in l.chars() { if ch == '(' { depth += 1 } else if ch == ')' { depth -= 1 } }
            text.push_str(&l); text.push(' ');
            if depth <= 0 { break; }
        }
        // ((w0 5) (w1 (- 3)))
        let mut vals = Vec::new();
        for k in 0..n {
            let key = format!("(w{k} ");
            let i = text.find(&key)? + key.len();
            let rest = &text[i..];
            let end = rest.find("))").map(|e| if rest.starts_with('(') { e + 1 } else { rest.find(')').unwrap() }).unwrap_or(rest.len());
            let tok = rest[..end].replace(['(', ')'], " ");
            let parts: Vec<&str> = tok.split_whitespace().collect();
            let v = match parts.as_slice() { ["-", x] => -(x.parse::<i64>().ok()?), [x] => x.parse::<i64>().ok()?, _ => return None };
            vals.push(v);
        }
        Some(vals)
    }
}
impl Drop for Solver { fn drop(&mut self) { let _ = self.stdin.write_all(b"(exit)\n"); let _ = self.child.kill(); let _ = self.child.wait(); } }

#[derive(Default, Clone)]
struct Stats { known: Vec<String>, layouts: usize, queries: usize, unsat: usize, twins_sat: usize, nontrivial: usize, boxes_out: usize, inconclusive: Vec<String>, violations: Vec<String>, solver_s: f64, samples: Vec<String> }

fn json_escape(s: &str) -> String { s.replace('\\', "\\\\").replace('"', "\\\"").replace('\n', " ") }
fn layout_json(l: &Layout) -> String {
    if l.rules.len() > 8 { return format!("{{\"axes\": {}, \"origin\": \"{}\", \"rules\": \"{} rules (generated by the catalog entry of that name)\"}}", l.axes, json_escape(&l.origin), l.rules.len()); }
    let rules: Vec<String> = l.rules.iter().map(|(boxes, subs)| {
        let bs: Vec<String> = boxes.iter().map(|b| format!("[{}]", b.iter().map(|c| match c { None => "null".to_string(), Some((lo, hi)) => format!("[{lo:?}, {hi:?}]") }).collect::<Vec<_>>().join(", "))).collect();
        let ss: Vec<String> = subs.iter().map(|(k, v)| format!("[\"{k}\", \"{v}\"]")).collect();
        format!("{{\"boxes\": [{}], \"subs\": [{}]}}", bs.join(", "), ss.join(", "))
    }).collect();
    format!("{{\"axes\": {}, \"origin\": \"{}\", \"rules\": [{}]}}", l.axes, json_escape(&l.origin), rules.join(", "))
}

static REPLAYS_WRITTEN: std::sync::atomic::AtomicUsize = std::sync::atomic::AtomicUsize::new(0);
fn write_replay(dir: &str, l: &Layout, p: &[f64], what: &str) -> String {
    if REPLAYS_WRITTEN.fetch_add(1, std::sync::atomic::Ordering::Relaxed) >= 25 { return String::new(); }
    std::fs::create_dir_all(dir).ok();
    let mut x: u64 = 1469598103934665603;
    for b in format!("{:?}{p:?}", l.rules).bytes() { x ^= b as u64; x = x.wrapping_mul(1099511628211); }
    let path = format!("{dir}/C16-bv-{x:016x}.json");
    let body = format!("{{\"kind\": \"bv\", \"property\": \"C16\", \"layout\": {}, \"point\": {p:?}, \"what\": \"{}\", \"replay_cmd\": \"bin/vk replay {path}\"}}\n", layout_json(l), json_escape(what));
    std::fs::write(&path, body).ok();
    path
}

fn process_layout(l: &Layout, z3: &mut Solver, cvc: &mut Solver, st: &mut Stats, dir: &str) {
    st.layouts += 1;
    let out = match std::panic::catch_unwind(|| run_real(l)) {
        Ok(o) => o,
        Err(_) => { let path = write_replay(dir, l, &[], "overlay_feature_variations panicked"); st.violations.push(format!("{path}|overlay_feature_variations panicked|{}", layout_json(l))); return; }
    };
    st.boxes_out += out.len();
    let ts = Instant::now();
    let (q, _) = emit(l, &out, false, false);
    z3.send(&q); let a = z3.check(); z3.send("(pop 1)\n");
    cvc.send(&q); let b = cvc.check(); cvc.send("(pop 1)\n");
    st.queries += 1;
    let mut ok = false;
    if a == "unsat" && b == "unsat" {
        st.unsat += 1; ok = true;
    } else if a == "sat" || b == "sat" {
        // a witness on the 1/4096 grid (exact in f64), from z3
        let (q, _) = emit(l, &out, false, true);
        z3.send(&q); let a2 = z3.check();
        let w = if a2 == "sat" { z3.get_ints(l.axes) } else { None };
        z3.send("(pop 1)\n");
        match w {
            Some(w) => {
                let p: Vec<f64> = w.iter().map(|x| *x as f64 / 4096.0).collect();
                let (e, o) = (expected_at(l, &p, false), output_at(&out, &p));
                if e != o && !on_a_rule_bound(l, &p) {
                    let what = format!("at {p:?} the rules give {e:?}, the first matching output box gives {o:?}");
                    // known finding (known_findings.json, C16 same-region merge): the deviation is EXACTLY the documented fontTools
                    // pre-pass — decided by a second query for all points: output == reference on the fontTools-merged rule list
                    let mut explained = false;
                    if has_same_region_rules(l) {
                        let r = ft_merged(l);
                        let (q, _) = emit_ref(l, &r, &out, false, false);
                        z3.send(&q); let a3 = z3.check(); z3.send("(pop 1)\n");
                        cvc.send(&q); let b3 = cvc.check(); cvc.send("(pop 1)\n");
                        st.queries += 1;
                        explained = a3 == "unsat" && b3 == "unsat" && output_at(&out, &p) == expected_at(&r, &p, false);
                    }
                    if explained {
                        st.known.push(format!("{what}|{}", layout_json(l)));
                        ok = true;
                    } else {
                        let path = write_replay(dir, l, &p, &what);
                        st.violations.push(format!("{path}|{what}|{}", layout_json(l)));
                    }
                } else {
                    st.inconclusive.push(format!("NON-REPRODUCING model at {p:?} z3={a} cvc5={b} {}", layout_json(l)));
                }
            }
            None => st.inconclusive.push(format!("sat (z3={a} cvc5={b}) but no dyadic witness (z3: {a2}) {}", layout_json(l))),
        }
    } else {
        st.inconclusive.push(format!("solver answers z3={a} cvc5={b} {}", layout_json(l)));
    }
    // vacuity twin: the reference with rule 0 left out must be distinguishable from the output
    let (q, _) = emit(l, &out, true, false);
    z3.send(&q); let a = z3.check(); z3.send("(pop 1)\n");
    cvc.send(&q); let b = cvc.check(); cvc.send("(pop 1)\n");
    st.queries += 1;
    if a == "sat" && b == "sat" { st.twins_sat += 1; if ok { st.nontrivial += 1; } }
    else { st.inconclusive.push(format!("vacuity twin not sat (z3={a} cvc5={b}) {}", layout_json(l))); }
    st.solver_s += ts.elapsed().as_secs_f64();
    if st.samples.len() < 4 && st.layouts % 500 == 1 {
        st.samples.push(format!("{{\"layout\": {}, \"output_boxes\": {}, \"verdict\": \"unsat\", \"twin\": \"sat\"}}", layout_json(l), out.len()));
    }
}

fn run(args: &[String]) {
    let get = |k: &str, d: &str| -> String { args.iter().position(|a| a == k).and_then(|i| args.get(i + 1)).cloned().unwrap_or(d.to_string()) };
    let tier = get("--tier", "quick");
    let seed: usize = get("--seed", "0").parse().unwrap_or(0);
    let workers: usize = get("--workers", "8").parse().unwrap_or(8);
    let out = get("--out", "/dev/stdout");
    let replay_dir = get("--replay-dir", "/tmp");
    let budget_s: f64 = get("--budget", "1e9").parse().unwrap_or(1e9);
    std::panic::set_hook(Box::new(|_| {}));
    let mut layouts = layouts_for(&tier);
    let n = layouts.len();
    if n > 0 { layouts.rotate_left(seed % n); }
    let layouts = Arc::new(layouts);
    let next = Arc::new(Mutex::new(0usize));
    let t0 = Instant::now();
    let mut handles = Vec::new();
    for _ in 0..workers {
        let (layouts, next, replay_dir) = (layouts.clone(), next.clone(), replay_dir.clone());
        handles.push(std::thread::spawn(move || {
            let (mut z3, mut cvc) = (Solver::spawn("z3"), Solver::spawn("cvc5"));
            let mut st = Stats::default();
            loop {
                let i = { let mut g = next.lock().unwrap(); let i = *g; *g += 16; i };
                if i >= layouts.len() || t0.elapsed().as_secs_f64() > budget_s { break; }
                for l in layouts[i..(i + 16).min(layouts.len())].iter() { process_layout(l, &mut z3, &mut cvc, &mut st, &replay_dir); }
            }
            st
        }));
    }
    let mut tot = Stats::default();
    for h in handles {
        let s = h.join().expect("worker");
        tot.layouts += s.layouts; tot.queries += s.queries; tot.unsat += s.unsat; tot.twins_sat += s.twins_sat; tot.nontrivial += s.nontrivial;
        tot.boxes_out += s.boxes_out; tot.solver_s += s.solver_s;
        tot.inconclusive.extend(s.inconclusive); tot.violations.extend(s.violations); tot.known.extend(s.known); tot.samples.extend(s.samples);
    }
    // replay files are written for the first 25 violations only (a broken overlay violates thousands of layouts):
    // list those first, so that the report's first entry always names a file
    tot.violations.sort_by_key(|v| v.starts_with('|'));
    let q = |v: &Vec<String>, cap: usize| -> String { v.iter().take(cap).map(|s| format!("\"{}\"", json_escape(s))).collect::<Vec<_>>().join(", ") };
    let report = format!(
        "{{\"tier\": \"{tier}\", \"layouts_total\": {n}, \"layouts_enumerated\": {}, \"cut_short_by_budget\": {}, \"queries\": {}, \"unsat\": {}, \"vacuity_twins_sat\": {}, \"nontrivial_layouts\": {}, \"output_boxes\": {}, \"solver_s\": {:.2}, \"wall_s\": {:.2}, \"workers\": {workers}, \"n_inconclusive\": {}, \"n_violations\": {}, \"n_known\": {}, \"known\": [{}], \"inconclusive\": [{}], \"violations\": [{}], \"samples\": [{}]}}\n",
        tot.layouts, tot.layouts < n, tot.queries, tot.unsat, tot.twins_sat, tot.nontrivial, tot.boxes_out, tot.solver_s, t0.elapsed().as_secs_f64(),
        tot.inconclusive.len(), tot.violations.len(), tot.known.len(), q(&tot.known, 3), q(&tot.inconclusive, 5), q(&tot.violations, 20), tot.samples.iter().take(6).cloned().collect::<Vec<_>>().join(", "));
    std::fs::write(&out, report).expect("write report");
}

// ------------------------------------------------------------------ replay (tiny ad-hoc JSON reader for files written above)
fn replay(path: &str) -> i32 {
    let text = std::fs::read_to_string(path).expect("read replay");
    let axes: usize = { let i = text.find("\"axes\": ").unwrap() + 8; text[i..].split(|c: char| !c.is_ascii_digit()).next().unwrap().parse().unwrap() };
    let nums = |s: &str| -> Vec<f64> { s.replace(['[', ']'], " ").split(',').filter_map(|x| x.trim().parse::<f64>().ok()).collect() };
    let p = { let i = text.find("\"point\": [").unwrap() + 9; let e = text[i..].find(']').unwrap(); nums(&text[i..i + e + 1]) };
    if text.contains("\"rules\": \"") {
        // a catalog layout too long to print: regenerate it from its name
        let o = { let i = text.find("\"origin\": \"").unwrap() + 11; let e = text[i..].find('"').unwrap(); text[i..i + e].to_string() };
        let l = catalog().into_iter().find(|l| l.origin == o).expect("catalog layout");
        return replay_layout(&l, &p, path);
    }
    let mut rules = Vec::new();
    let rs = &text[text.find("\"rules\": [").unwrap()..];
    for chunk in rs.split("{\"boxes\": ").skip(1) {
        let si = chunk.find("\"subs\": ").unwrap();
        let (btxt, stxt) = (&chunk[..si], &chunk[si + 8..chunk.find('}').unwrap()]);
        let mut boxes = Vec::new();
        // boxes: [[null, [0.0, 0.5]], [...]]
        let inner = btxt.trim().trim_end_matches(',').trim();
        let inner = &inner[1..inner.len() - 1];
        let mut depth = 0; let mut start = 0;
        for (i, ch) in inner.char_indices() {
            match ch { '[' => { if depth == 0 { start = i; } depth += 1; } ']' => { depth -= 1; if depth == 0 {
                let one = &inner[start + 1..i];
                let mut spec: BoxSpec = Vec::new();
                let toks: Vec<&str> = one.split(',').map(|t| t.trim()).collect();
                let mut k = 0;
                while k < toks.len() {
                    if toks[k] == "null" { spec.push(None); k += 1; }
                    else { let lo: f64 = toks[k].trim_start_matches('[').parse().unwrap(); let hi: f64 = toks[k + 1].trim_end_matches(']').parse().unwrap(); spec.push(Some((lo, hi))); k += 2; }
                }
                boxes.push(spec);
            } } _ => {} }
        }
        let strs: Vec<String> = stxt.split('"').enumerate().filter(|(i, _)| i % 2 == 1).map(|(_, s)| s.to_string()).collect();
        let subs = strs.chunks(2).map(|c| (c[0].clone(), c[1].clone())).collect();
        rules.push((boxes, subs));
    }
    let l = Layout { axes, rules, origin: "replay".into() };
    replay_layout(&l, &p, path)
}

fn replay_layout(l: &Layout, p: &[f64], path: &str) -> i32 {
    let axes = l.axes;
    let out = match std::panic::catch_unwind(|| run_real(l)) {
        Ok(o) => o,
        Err(_) => { println!("reproduced: overlay_feature_variations panics on this rule list"); println!("VIOLATION property=C16 replay={path}"); return 1; }
    };
    if p.len() != axes { println!("no point recorded"); return 0; }
    let (e, o) = (expected_at(l, p, false), output_at(&out, p));
    println!("rules: {}", layout_json(l));
    println!("at {p:?}: source rules give {e:?}; first matching output box gives {o:?}");
    if e != o { println!("VIOLATION property=C16 replay={path}"); 1 } else { println!("not reproduced"); 0 }
}

fn main() {
    let args: Vec<String> = std::env::args().collect();
    match args.get(1).map(|s| s.as_str()) {
        Some("run") => run(&args[2..]),
        Some("replay") => std::process::exit(replay(&args[2])),
        Some("count") => println!("quick {} thorough {}", layouts_for("quick").len(), layouts_for("thorough").len()),
        _ => { eprintln!("usage: boxval run|replay|count"); std::process::exit(2); }
    }
}
