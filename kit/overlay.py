#!/usr/bin/env python3
"""Build an overlay of /repo's *current working tree* for the solver checks.

The overlay is a scratch copy of the workspace (outside /repo and /verif) in
which, for the crates/files a group names:

  T1  imports of std::collections::{HashMap,HashSet,BTreeMap,BTreeSet} and
      indexmap::{IndexMap,IndexSet} are redirected to `verif_shim`
  T2  slice sorts become `VSort` calls (stable insertion sort)
  T4  harness modules from /verif/harness are appended to the module files
      they test (as child modules, so they see private items)

Function bodies are never edited. Profile `kani` applies T1+T2+T4, profile
`replay` applies T4 only (real std containers, real sort, real format!).

Used as a library by bin/vk; can be run by hand:
    overlay.py <group> [--profile kani|replay] [--dest DIR]
"""
import hashlib
import os
import re
import shutil
import subprocess
import sys
import time

REPO = os.environ.get("VK_REPO", "/repo")
VERIF = os.path.dirname(os.path.dirname(os.path.abspath(__file__)))
SCRATCH = os.environ.get("VK_SCRATCH", "/tmp/vk-overlay")

SKIP_TOP = {"target", ".git", "docs", "ttx_diff", ".github"}

SHIM_STD = {"HashMap", "HashSet", "BTreeMap", "BTreeSet"}
SHIM_STD_MODS = {"hash_map", "btree_map", "hash_set", "btree_set"}
SHIM_INDEXMAP = {"IndexMap", "IndexSet"}
SHIM_INDEXMAP_MODS = {"map", "set"}

_ident = re.compile(r"[A-Za-z_][A-Za-z0-9_]*|\*")


def _parse_tree(s, i):
    """parse a use-tree starting at s[i]; returns (node, next_i).
    node = (path_segments, children | None, alias | None)"""
    segs = []
    while True:
        while s[i].isspace():
            i += 1
        if s[i] == "{":
            i += 1
            kids = []
            while True:
                while s[i].isspace():
                    i += 1
                if s[i] == "}":
                    i += 1
                    break
                kid, i = _parse_tree(s, i)
                kids.append(kid)
                while s[i].isspace():
                    i += 1
                if s[i] == ",":
                    i += 1
            return (segs, kids, None), i
        m = _ident.match(s, i)
        if not m:
            raise ValueError("cannot parse use tree at: " + s[i:i + 40])
        segs.append(m.group(0))
        i = m.end()
        while i < len(s) and s[i].isspace():
            i += 1
        if s.startswith("::", i):
            i += 2
            continue
        alias = None
        m = re.compile(r"as\s+([A-Za-z_][A-Za-z0-9_]*)").match(s, i)
        if m:
            alias = m.group(1)
            i = m.end()
        return (segs, None, alias), i


def _flatten(node, prefix=()):
    segs, kids, alias = node
    p = prefix + tuple(segs)
    if kids is None:
        if p and p[-1] == "self":
            # `use a::b::{self, C}` -> `use a::b;`
            yield (p[:-1], alias)
        else:
            yield (p, alias)
    else:
        for k in kids:
            yield from _flatten(k, p)


def _emit(leaves):
    out = []
    for p, alias in leaves:
        t = "::".join(p)
        if alias:
            t += " as " + alias
        out.append(t)
    return out


SKIP_INDEXMAP = False


def _retarget(p):
    """map a use-path leaf to its verif_shim equivalent, or None"""
    if SKIP_INDEXMAP and p and p[0] == "indexmap":
        return None
    if len(p) >= 3 and p[0] == "std" and p[1] == "collections" and (p[2] in SHIM_STD or p[2] in SHIM_STD_MODS):
        return ("verif_shim",) + p[2:]
    if len(p) >= 2 and p[0] == "indexmap" and (p[1] in SHIM_INDEXMAP or p[1] in SHIM_INDEXMAP_MODS):
        return ("verif_shim", "indexmap") + p[1:]
    return None


_use_re = re.compile(r"(?m)^([ \t]*)((?:pub(?:\([a-z:]+\))?\s+)?use\s+)((?:std|indexmap)\s*::[^;]*);")


def t1_rewrite(text):
    """retarget container imports; returns (text, number of rewritten leaves)"""
    out = []
    pos = 0
    n = 0
    for m in _use_re.finditer(text):
        indent, kw, tree = m.group(1), m.group(2), m.group(3)
        node, _ = _parse_tree(tree + ";", 0)
        leaves = list(_flatten(node))
        keep, shim = [], []
        for p, alias in leaves:
            r = _retarget(p)
            if r is not None:
                shim.append((r, alias))
            else:
                keep.append((p, alias))
        if not shim:
            continue
        n += len(shim)
        out.append(text[pos:m.start()])
        lines = [f"{indent}{kw}{t};" for t in _emit(keep)] + [f"{indent}{kw}{t};" for t in _emit(shim)]
        out.append("\n".join(lines))
        pos = m.end()
    out.append(text[pos:])
    text = "".join(out)
    # fully qualified paths in expressions / types
    text, k1 = re.subn(r"\bstd::collections::(HashMap|HashSet|BTreeMap|BTreeSet|hash_map|btree_map)\b", r"verif_shim::\1", text)
    k2 = 0
    if not SKIP_INDEXMAP:
        text, k2 = re.subn(r"(?<!verif_shim::)\bindexmap::(IndexMap|IndexSet|map::|set::)", r"verif_shim::indexmap::\1", text)
    return text, n + k1 + k2


_T2 = [
    (re.compile(r"\.sort_unstable_by_key\("), ".vsort_by_key("),
    (re.compile(r"\.sort_by_cached_key\("), ".vsort_by_key("),
    (re.compile(r"\.sort_unstable_by\("), ".vsort_by("),
    (re.compile(r"\.sort_by_key\("), ".vsort_by_key("),
    (re.compile(r"\.sort_by\("), ".vsort_by("),
    (re.compile(r"\.sort_unstable\(\)"), ".vsort()"),
    (re.compile(r"\.sort\(\)"), ".vsort()"),
]


def t2_rewrite(text):
    n = 0
    for rx, rep in _T2:
        text, k = rx.subn(rep, text)
        n += k
    if n:
        text = _insert_after_inner_attrs(text, "#[allow(unused_imports)]\nuse verif_shim::VSort as _;\n")
    return text, n


def _insert_after_inner_attrs(text, snippet):
    """insert `snippet` after the leading //! docs and #![..] attributes of a file"""
    lines = text.split("\n")
    i = 0
    depth = 0
    while i < len(lines):
        s = lines[i].strip()
        if depth > 0:
            depth += s.count("[") - s.count("]")
            i += 1
            continue
        if s.startswith("//") or s == "":
            i += 1
            continue
        if s.startswith("#!["):
            depth = s.count("[") - s.count("]")
            i += 1
            continue
        break
    return "\n".join(lines[:i]) + "\n" + snippet + "\n".join(lines[i:])


def _kit_mtime():
    m = 0.0
    for f in (os.path.abspath(__file__), os.path.join(VERIF, "kit", "config.py")):
        m = max(m, os.path.getmtime(f))
    return m


def _write_keep_mtime(path, text, ref_mtime):
    """write `text`; give the file an mtime derived from its inputs (source file, harness, kit) so
    cargo's fingerprints stay valid across regenerated overlays and change when an input changes"""
    open(path, "w").write(text)


def sha256(path):
    h = hashlib.sha256()
    with open(path, "rb") as f:
        h.update(f.read())
    return h.hexdigest()


def _rs_files(root):
    for d, dirs, files in os.walk(root):
        dirs[:] = [x for x in dirs if x not in ("target",)]
        for f in files:
            if f.endswith(".rs"):
                yield os.path.join(d, f)


def build(group, cfg, profile="kani", dest=None, log=None):
    """cfg keys: package, t1_crates (crate dirs rewritten crate-wide), t1_files,
    t2_files, t2_crates, harness: {repo-relative module file: /verif-relative harness file},
    shim_features: [..], extra_deps: {crate dir: [toml lines]}
    returns dict(root=..., digests={repo-rel path: sha256}, t1=count, t2=count)"""
    dest = dest or os.path.join(SCRATCH, f"{group}-{profile}")
    if os.path.exists(dest):
        # keep nothing stale except cargo's lock file (regenerated anyway)
        shutil.rmtree(dest)
    os.makedirs(dest)
    for name in sorted(os.listdir(REPO)):
        if name in SKIP_TOP:
            continue
        src = os.path.join(REPO, name)
        dst = os.path.join(dest, name)
        if os.path.isdir(src):
            shutil.copytree(src, dst, symlinks=True, ignore=shutil.ignore_patterns("target"))
        else:
            shutil.copy2(src, dst)
    info = {"root": dest, "digests": {}, "t1": 0, "t2": 0, "profile": profile}
    global SKIP_INDEXMAP
    SKIP_INDEXMAP = bool(cfg.get("t1_keep_indexmap"))
    kit_m = _kit_mtime()

    shim_path = os.path.join(VERIF, "kit", "verif_shim")
    feats = cfg.get("shim_features", [])
    feat_s = ", features = [%s]" % ", ".join(f'"{f}"' for f in feats) if feats else ""
    dep_line = f'verif_shim = {{ path = "{shim_path}"{feat_s} }}\n'

    crates = set(cfg.get("t1_crates", [])) | set(cfg.get("t2_crates", [])) | set(cfg.get("dep_crates", []))
    for rel in list(cfg.get("t1_files", [])) + list(cfg.get("t2_files", [])) + list(cfg.get("harness", {}).keys()) + list(cfg.get("t1_fields", {}).keys()):
        crates.add(rel.split("/")[0])
    for crate in sorted(crates):
        toml = os.path.join(dest, crate, "Cargo.toml")
        s = open(toml).read()
        if "verif_shim" not in s:
            s = re.sub(r"(?m)^\[dependencies\]\s*$", "[dependencies]\n" + dep_line.rstrip("\n"), s, count=1)
            if "verif_shim" not in s:
                s += "\n[dependencies]\n" + dep_line
        for line in cfg.get("extra_deps", {}).get(crate, []):
            s = re.sub(r"(?m)^\[dependencies\]\s*$", "[dependencies]\n" + line, s, count=1)
        _write_keep_mtime(toml, s, max(os.path.getmtime(toml), kit_m))

    if profile == "kani":
        t1_files = set(os.path.join(dest, f) for f in cfg.get("t1_files", []))
        for crate in cfg.get("t1_crates", []):
            t1_files.update(_rs_files(os.path.join(dest, crate, "src")))
        excl = set(os.path.join(dest, f) for f in cfg.get("t1_exclude_files", []))
        t1_files -= excl
        for f in sorted(t1_files):
            s = open(f).read()
            t, n = t1_rewrite(s)
            if n:
                _write_keep_mtime(f, t, max(os.path.getmtime(f), kit_m))
                info["t1"] += n
        # T1f: a per-field type substitution, for a struct that is declared in a file which is NOT rewritten as a whole but
        # whose field is consumed by a rewritten file (fontir's MiscMetadata range bits -> fontbe/os2.rs). Only the declared
        # type on the line of the named field changes; no function body is touched.
        for rel, fields in cfg.get("t1_fields", {}).items():
            f = os.path.join(dest, rel)
            s = open(f).read()
            n = 0
            for field in fields:
                s, k = re.subn(r"(?m)^(\s*pub\s+" + re.escape(field) + r"\s*:\s*[^\n]*?)\b(HashSet|HashMap|BTreeMap|BTreeSet)<", r"\1verif_shim::\2<", s)
                n += k
            if n != len(fields):
                raise RuntimeError(f"T1f: expected {len(fields)} field substitutions in {rel}, made {n}")
            _write_keep_mtime(f, s, max(os.path.getmtime(f), kit_m))
            info["t1"] += n
        t2_files = set(os.path.join(dest, f) for f in cfg.get("t2_files", []))
        for crate in cfg.get("t2_crates", []):
            t2_files.update(_rs_files(os.path.join(dest, crate, "src")))
        for f in sorted(t2_files):
            s = open(f).read()
            t, n = t2_rewrite(s)
            if n:
                _write_keep_mtime(f, t, max(os.path.getmtime(f), kit_m))
                info["t2"] += n

    for rel, hfile in cfg.get("harness", {}).items():
        src = os.path.join(REPO, rel)
        info["digests"][rel] = sha256(src)
        body = open(os.path.join(VERIF, hfile)).read()
        if profile == "replay":
            body += _replay_entries(body, cfg.get("harness_names", {}).get(rel))
        target = os.path.join(dest, rel)
        m = max(os.path.getmtime(target), os.path.getmtime(os.path.join(VERIF, hfile)), kit_m)
        text = open(target).read() + "\n\n// ===== appended by /verif/kit/overlay.py (T4) from " + hfile + "\n" + body
        _write_keep_mtime(target, text, m)
    _stamp_mtimes(dest, f"{group}-{profile}")
    return info


def _stamp_mtimes(dest, key):
    """cargo decides what to rebuild from mtimes. Every file of the regenerated overlay gets the mtime it had in the
    previous overlay of the same group/profile if its CONTENT is unchanged, and the current time otherwise; so an
    edit to /repo, to a harness or to the kit rebuilds exactly what it touches, and nothing stale is ever reused."""
    import json
    stamp_dir = os.path.join(VERIF, ".cache", "overlay-stamps")
    os.makedirs(stamp_dir, exist_ok=True)
    sp = os.path.join(stamp_dir, key + ".json")
    try:
        old = json.load(open(sp))
    except Exception:
        old = {}
    new = {}
    now = time.time()
    for d, dirs, files in os.walk(dest):
        dirs[:] = [x for x in dirs if x != "target"]
        for f in files:
            path = os.path.join(d, f)
            if os.path.islink(path):
                continue
            rel = os.path.relpath(path, dest)
            h = sha256(path)
            prev = old.get(rel)
            m = prev[1] if prev and prev[0] == h else now
            os.utime(path, (m, m))
            new[rel] = [h, m]
    json.dump(new, open(sp, "w"))


def _replay_entries(body, names=None):
    """for every harness fn, a #[test] that loads the recorded inputs and calls it.
    Harness files have one top-level `mod verif_proofs { .. }`; entries go in a sibling module."""
    names = names or harness_names(body)
    out = ["\n#[cfg(verif_replay)]\nmod verif_replay_entries {\n"]
    for n in names:
        out.append(
            f"    #[test]\n    fn verif_replay_{n}() {{ verif_shim::vk::load_from_env(); super::verif_proofs::{n}(); }}\n"
        )
    out.append("}\n")
    return "".join(out)


_harness_re = re.compile(r"#\[cfg_attr\(kani,\s*kani::proof\)\]\s*(?:#\[[^\]]*\]\s*)*pub\(super\)\s+fn\s+([A-Za-z0-9_]+)\s*\(")


def harness_names(body):
    return _harness_re.findall(body)


if __name__ == "__main__":
    import argparse
    sys.path.insert(0, os.path.join(VERIF, "kit"))
    import config
    ap = argparse.ArgumentParser()
    ap.add_argument("group")
    ap.add_argument("--profile", default="kani")
    ap.add_argument("--dest")
    a = ap.parse_args()
    info = build(a.group, config.GROUPS[a.group], a.profile, a.dest)
    print(info["root"], "t1=%d t2=%d" % (info["t1"], info["t2"]))
