"""Kani/CBMC side of the driver: codegen, harness runs, log parsing, playback, native replay, evidence."""
import json
import os
import re
import shutil
import subprocess
import time

import config
import overlay

VERIF = overlay.VERIF
CACHE = os.path.join(VERIF, ".cache")
LOGS = os.path.join(CACHE, "logs")

BASE_FLAGS = ["-Z", "stubbing", "-Z", "unstable-options"]


def _env():
    e = dict(os.environ)
    e["CARGO_NET_OFFLINE"] = "true"
    e.pop("RUSTFLAGS", None)
    e.pop("CARGO_TARGET_DIR", None)
    return e


def selftest(verbose=False):
    """native differential test of the shim containers / VSort against std (DESIGN §4)"""
    d = os.path.join(VERIF, "kit", "verif_shim")
    p = subprocess.run(
        ["cargo", "test", "--offline", "--quiet", "--target-dir", os.path.join(CACHE, "selftest")],
        cwd=d, env=_env(), stdout=subprocess.PIPE, stderr=subprocess.STDOUT, text=True)
    if verbose or p.returncode != 0:
        print(p.stdout[-2000:])
    return p.returncode


def target_dir(group):
    return os.path.join(CACHE, "kani", group)


def _kani_cmd(group, extra):
    pkg = config.GROUPS[group]["package"]
    return ["cargo", "kani", "-p", pkg] + config.GROUPS[group].get("cargo_args", []) + ["--target-dir", target_dir(group)] + BASE_FLAGS + extra


def codegen(group, root):
    os.makedirs(LOGS, exist_ok=True)
    p = subprocess.run(_kani_cmd(group, ["--only-codegen"]), cwd=root, env=_env(),
                       stdout=subprocess.PIPE, stderr=subprocess.STDOUT, text=True)
    with open(os.path.join(LOGS, f"codegen-{group}.log"), "w") as f:
        f.write(p.stdout)
    return p.returncode == 0, p.stdout


def harness_path(h):
    return f"{h['module']}::verif_proofs::{h['name']}"


def _limits(h, tier):
    mem = h.get("mem_gb", config.MEM_GB[tier])
    to = h.get("timeout", config.TIMEOUT_S[tier])
    return mem, to


_re = {
    "symex": re.compile(r"^Runtime Symex: ([0-9.]+)s"),
    "steps": re.compile(r"^size of program expression: (\d+) steps"),
    "vcc": re.compile(r"^Generated (\d+) VCC\(s\), (\d+) remaining after simplification"),
    "vars": re.compile(r"^(\d+) variables, (\d+) clauses"),
    "solver": re.compile(r"^Runtime Solver: ([0-9.]+)s"),
    "dp": re.compile(r"^Runtime decision procedure: ([0-9.]+)s"),
    "vtime": re.compile(r"^Verification Time: ([0-9.]+)s"),
    "summary": re.compile(r"^ \*\* (\d+) of (\d+) failed"),
    "covers": re.compile(r"^ \*\* (\d+) of (\d+) cover properties satisfied"),
    "failed": re.compile(r"^Failed Checks: (.*)$"),
    "stub": re.compile(r"^\s*- Stub: (.*)$"),
}


def parse_log(path):
    r = {"failed_checks": [], "covers_sat": None, "covers_total": None, "stubs": [], "cover_unsat": []}
    verdict = None
    oom = False
    last_check = None
    with open(path, errors="replace") as f:
        for line in f:
            if line.startswith("Not unwinding") or line.startswith("Unwinding loop") or line.startswith("aborting path"):
                continue
            line = line.rstrip("\n")
            for k, rx in _re.items():
                m = rx.match(line)
                if not m:
                    continue
                if k == "symex":
                    r["symex_s"] = float(m.group(1))
                elif k == "steps":
                    r["program_steps"] = int(m.group(1))
                elif k == "vcc":
                    r["vccs"] = int(m.group(1)); r["vccs_remaining"] = int(m.group(2))
                elif k == "vars":
                    r["sat_variables"] = int(m.group(1)); r["sat_clauses"] = int(m.group(2))
                elif k == "solver":
                    r["solver_s"] = r.get("solver_s", 0.0) + float(m.group(1))
                elif k == "dp":
                    r["decision_procedure_s"] = float(m.group(1))
                elif k == "vtime":
                    r["verification_s"] = float(m.group(1))
                elif k == "summary":
                    r["checks_failed"] = int(m.group(1)); r["checks_total"] = int(m.group(2))
                elif k == "covers":
                    r["covers_sat"] = int(m.group(1)); r["covers_total"] = int(m.group(2))
                elif k == "failed":
                    r["failed_checks"].append(m.group(1).strip())
                elif k == "stub":
                    r["stubs"].append(m.group(1).strip())
            if line.startswith("Check "):
                last_check = line
            elif "- Status: UNSATISFIABLE" in line and last_check and ".cover." in last_check:
                r["cover_unsat"].append(last_check)
            if line.startswith("VERIFICATION:- "):
                verdict = line.split(":- ")[1].strip()
            low = line.lower()
            if "out of memory" in low or "bad_alloc" in low or "memory exhausted" in low:
                oom = True
    r["verdict"] = verdict
    r["oom"] = oom
    return r


def classify(p, rc, timed_out, termination_claim=False):
    """-> (status, note)"""
    if timed_out:
        return "timeout", "solver budget exhausted"
    if p["oom"]:
        return "out_of_memory", "CBMC ran out of memory"
    if p["verdict"] is None:
        return "error", f"no verdict (exit {rc})"
    if p["verdict"].startswith("SUCCESSFUL"):
        if p["covers_total"] and p["covers_sat"] != p["covers_total"]:
            return "vacuous", "%d of %d reachability covers unsatisfiable" % (p["covers_total"] - p["covers_sat"], p["covers_total"])
        return "proved", ""
    fc = p["failed_checks"]
    real = [c for c in fc if "unwinding assertion" not in c]
    if real:
        return "counterexample", "; ".join(sorted(set(real)))[:400]
    if fc and termination_claim:
        # the harness' unwind bound is derived from the input size (every loop consumes input): a loop that needs more
        # iterations than that does not terminate. Candidate only: it becomes a violation iff the native replay hangs.
        return "possible_nontermination", "unwinding assertion failed in a harness whose bound is derived from the input size: a loop may not terminate; the inputs are taken from CBMC's trace of the failed unwinding assertion and replayed natively under a time limit (a hang is the reproduction)"
    if fc:
        return "unwind_too_small", "unwinding assertion failed (bound too small)"
    return "error", f"FAILED without failed checks (exit {rc})"


def run_harness(group, root, h, tier, extra=None, logname=None):
    os.makedirs(LOGS, exist_ok=True)
    mem, to = _limits(h, tier)
    flags = list(h.get("flags", config.FUNCTIONAL_FLAGS))
    cmd = _kani_cmd(group, ["--harness", harness_path(h), "--exact"] + flags + (extra or []))
    log = os.path.join(LOGS, (logname or h["name"]) + ".log")
    sh = "ulimit -v %d; exec timeout -k 10 %d %s" % (mem * 1024 * 1024, to, " ".join(cmd))
    t0 = time.time()
    with open(log, "w") as f:
        p = subprocess.run(["bash", "-c", sh], cwd=root, env=_env(), stdout=f, stderr=subprocess.STDOUT)
    wall = time.time() - t0
    timed_out = p.returncode in (124, 137)
    parsed = parse_log(log)
    status, note = classify(parsed, p.returncode, timed_out, bool(h.get("termination_claim")))
    rec = {"harness": h["name"], "group": group, "status": status, "note": note, "wall_s": round(wall, 1),
           "limits": {"mem_gb": mem, "timeout_s": to}, "flags": flags, "log": log}
    for k in ("symex_s", "program_steps", "vccs", "vccs_remaining", "sat_variables", "sat_clauses", "solver_s",
              "verification_s", "checks_failed", "checks_total", "covers_sat", "covers_total", "failed_checks", "stubs"):
        if parsed.get(k) not in (None, []):
            rec[k] = parsed[k]
    return rec


_vec_re = re.compile(r"^\s*vec!\[([0-9,\s]*)\],?\s*$")


def playback_values(group, root, h, tier):
    """re-run with concrete playback and return the list of byte vectors (one per kani::any call)"""
    # trace generation needs more memory than the verdict run: twice the harness limit, at least 16 GB
    mem, to = _limits(h, tier)
    h2 = dict(h, mem_gb=max(2 * mem, 16), timeout=max(to, 1800))
    rec = run_harness(group, root, h2, tier, extra=["-Z", "concrete-playback", "--concrete-playback=print"],
                      logname=h["name"] + ".playback")
    # Kani prints one playback test per failing check AND per satisfied cover; only the former are counterexamples.
    blocks = []  # (kind, [byte vectors])
    kind = None
    cur = None
    with open(rec["log"], errors="replace") as f:
        for line in f:
            m = re.match(r"^\s*/// Check for `([^`]*)`", line)
            if m:
                kind = m.group(1)
                continue
            if "let concrete_vals" in line:
                cur = []
                continue
            if cur is not None:
                if "];" in line and "vec!" not in line:
                    blocks.append((kind or "?", cur))
                    cur = None
                    kind = None
                    continue
                m = _vec_re.match(line)
                if m:
                    body = m.group(1).strip()
                    cur.append([int(x) for x in body.split(",") if x.strip()] if body else [])
    failing = [b for k, b in blocks if k != "cover"]
    return failing[0] if failing else []


def _names_by_file(cfg):
    """module file -> names of the harnesses defined in the harness file this group appends to it"""
    out = {}
    for rel, hfile in cfg["harness"].items():
        names = set()
        for h in config.HARNESSES:
            g = config.GROUPS[h["group"]]
            if g["harness"].get(rel) == hfile and rel.endswith("/" + h["module"].replace("::", "/") + ".rs"):
                names.add(h["name"])
        out[rel] = sorted(names)
    return out


_trace_val_re = re.compile(r"return_value\$\$.*?vk3imp\d+(any_[a-z0-9]+)=.*\(([01 ]+)\)\s*$")


def trace_values(group, root, h, tier, prop_pattern):
    """inputs from CBMC's own trace (`--output-format old --cbmc-args --trace`): every harness input is the return value
    of one `vk::any_*` call, so the sequence of those return values in the trace of a failed property IS the input vector.
    Used where Kani's concrete playback has nothing to offer (unwinding assertions)."""
    mem, to = _limits(h, tier)
    h2 = dict(h, mem_gb=max(2 * mem, 16), timeout=max(to, 1800))
    rec = run_harness(group, root, h2, tier, extra=["--output-format", "old", "--cbmc-args", "--trace"], logname=h["name"] + ".trace")
    out = []
    cur = None
    with open(rec["log"], errors="replace") as f:
        for line in f:
            if line.startswith("Trace for "):
                if cur is not None and cur[1]:
                    out.append(cur)
                name = line[len("Trace for "):].strip().rstrip(":")
                cur = (name, []) if re.search(prop_pattern, name) else None
                continue
            if cur is not None:
                m = _trace_val_re.search(line)
                if m:
                    bits = m.group(2).replace(" ", "")
                    n = int(bits, 2)
                    cur[1].append(list(n.to_bytes(len(bits) // 8, "little")))
    if cur is not None and cur[1]:
        out.append(cur)
    return out


def replay_target_dir(group):
    return os.path.join(CACHE, "replay", group)


NATIVE_TIMEOUT_S = 120


def run_native(group, h_name, module, vals, release):
    """build the replay overlay (real containers, real sort, real format!) and run the harness on recorded inputs.
    returns (reproduced, labels, output tail)"""
    cfg = dict(config.GROUPS[group])
    hfile = [f for f in cfg["harness"] if f.endswith("/" + module.replace("::", "/") + ".rs")]
    # all harnesses of the harness FILE get an entry: the overlay text (and with it cargo's fingerprint) must not depend on which one is replayed
    cfg["harness_names"] = _names_by_file(cfg)
    info = overlay.build(group, cfg, "replay")
    try:
        env = _env()
        env["RUSTFLAGS"] = "--cfg verif_replay"
        env["VK_REPLAY"] = ";".join(",".join(str(b) for b in v) for v in vals)
        cmd = ["cargo", "test", "--offline", "-p", cfg["package"], "--lib", "--target-dir", replay_target_dir(group)]
        if release:
            cmd.append("--release")
        cmd += ["--", f"verif_replay_{h_name}", "--exact", "--nocapture", "--test-threads", "1"]
        # the test path is <module>::verif_replay_entries::verif_replay_<name>
        cmd[cmd.index(f"verif_replay_{h_name}")] = f"{module}::verif_replay_entries::verif_replay_{h_name}"
        # build first (no time limit), then run under a time limit: a replay that does not finish is a hang
        b = subprocess.run(cmd[:cmd.index("--")] + ["--no-run"], cwd=info["root"], env=env, stdout=subprocess.PIPE, stderr=subprocess.STDOUT, text=True)
        if b.returncode != 0:
            out = b.stdout
        else:
            try:
                p = subprocess.run(cmd, cwd=info["root"], env=env, stdout=subprocess.PIPE, stderr=subprocess.STDOUT, text=True, timeout=NATIVE_TIMEOUT_S)
                out = p.stdout
            except subprocess.TimeoutExpired:
                subprocess.run(["pkill", "-f", f"verif_replay_{h_name}"], check=False)
                return True, ["non_termination"], f"the native replay did not finish within {NATIVE_TIMEOUT_S} s on the recorded inputs (hang)"
    finally:
        shutil.rmtree(info["root"], ignore_errors=True)
    if "could not compile" in out:
        errs = "\n".join(l for l in out.split("\n") if l.startswith("error"))[:600]
        return False, [], "REPLAY-BUILD-FAILED (the replay overlay does not compile; this is a defect of the harness kit, not a verdict): " + errs
    ran = re.search(r"test result: .* (\d+) passed; (\d+) failed", out)
    if not ran or (int(ran.group(1)) + int(ran.group(2))) == 0:
        return False, [], "replay did not run: " + out[-1500:]
    failed = int(ran.group(2)) > 0
    if "VK_ASSUME_VIOLATED" in out or "VK_REPLAY_" in out:
        return False, [], "recorded values do not satisfy the harness assumptions natively: " + out[-800:]
    labels = sorted(set(re.findall(r"VK_ASSERT ([A-Za-z0-9_]+)", out)))
    if failed and not labels:
        m = re.search(r"panicked at ([^\n]*)\n([^\n]*)", out)
        labels = ["panic:" + (m.group(2).strip()[:120] if m else "unknown")]
    return failed, labels, out[-1500:]


def prebuild_replay(group, release):
    cfg = dict(config.GROUPS[group])
    cfg["harness_names"] = _names_by_file(cfg)
    info = overlay.build(group, cfg, "replay")
    try:
        env = _env()
        env["RUSTFLAGS"] = "--cfg verif_replay"
        cmd = ["cargo", "test", "--offline", "-p", cfg["package"], "--lib", "--no-run", "--target-dir", replay_target_dir(group)]
        if release:
            cmd.append("--release")
        p = subprocess.run(cmd, cwd=info["root"], env=env, stdout=subprocess.PIPE, stderr=subprocess.STDOUT, text=True)
    finally:
        shutil.rmtree(info["root"], ignore_errors=True)
    return p.returncode == 0


def native_replay(rec, pid):
    """replay a Kani counterexample against the unshimmed code in dev and release profiles"""
    h = [x for x in config.HARNESSES if x["name"] == rec["harness"]][0]
    vals = rec.get("playback") or []
    os.makedirs(os.path.join(VERIF, "evidence", "replays"), exist_ok=True)
    path = os.path.join(VERIF, "evidence", "replays", f"{pid}-{h['name']}.json")
    out = {"property": pid, "harness": h["name"], "group": h["group"], "module": h["module"], "inputs": vals,
           "kani_failed_checks": rec.get("failed_checks", []), "profiles": {}}
    if not vals:
        out["detail"] = "no concrete playback values could be extracted"
        out["reproduced"] = False
        out["labels"] = []
    else:
        any_rep = False
        labels = set()
        for prof, rel in (("dev", False), ("release", True)):
            rep, labs, tail = run_native(h["group"], h["name"], h["module"], vals, rel)
            out["profiles"][prof] = {"reproduced": rep, "labels": labs, "output_tail": tail}
            any_rep = any_rep or rep
            labels.update(labs)
        out["reproduced"] = any_rep
        out["labels"] = sorted(labels)
        out["detail"] = "" if any_rep else "counterexample does not fail natively in either profile"
    out["path"] = path
    out["replay_cmd"] = f"bin/vk replay {path}"
    with open(path, "w") as f:
        json.dump(out, f, indent=1)
    return out


def replay_file(path):
    d = json.load(open(path))
    if d.get("kind") == "sv":
        import svcheck
        d["path_self"] = path
        return svcheck.replay_file(d)
    if d.get("kind") == "bv":
        import bvcheck
        d["path_self"] = path
        return bvcheck.replay_file(d)
    if d.get("kind") == "scan":
        print(json.dumps(d, indent=1))
        return 1
    worst = 0
    for prof, rel in (("dev", False), ("release", True)):
        rep, labs, tail = run_native(d["group"], d["harness"], d["module"], d["inputs"], rel)
        print(f"[{prof}] reproduced={rep} labels={labs}")
        print(tail[-600:])
        if rep:
            worst = 1
    if worst:
        print(f"VIOLATION property={d['property']} replay={path}")
    return worst


def evidence(pid, tier, seed, hs, results, sv_records, scan_record, digests, wall, n_viol):
    samples = []
    evaluations = 0
    nontrivial = 0
    solver_s = 0.0
    for h in hs:
        rec = dict(results.get(h["name"], {"harness": h["name"], "status": "not_run"}))
        rec.pop("log", None)
        rec.pop("playback", None)
        rec["functions"] = h.get("funcs", [])
        rec["bound"] = h.get("bound", "")
        rec["oracle"] = h.get("oracle", "")
        samples.append(rec)
        if rec["status"] in ("proved", "counterexample"):
            evaluations += max(1, rec.get("vccs_remaining", 1))
            solver_s += rec.get("verification_s", 0.0)
        if rec["status"] == "proved" and (rec.get("covers_total") or 0) > 0 and rec.get("covers_sat") == rec.get("covers_total"):
            nontrivial += 1
    sv_queries = 0
    for r in sv_records:
        samples.append(r)
        sv_queries += r.get("queries", 0)
        evaluations += r.get("queries", 0)
        nontrivial += r.get("nontrivial", 0)
        solver_s += r.get("solver_s", 0.0)
    cov = {
        "evaluations": evaluations,
        "distinct_nontrivial": nontrivial,
        "rule": "evaluations = verification conditions handed to the SAT solver by CBMC (VCCs remaining after simplification, summed over "
                "harnesses that ran to a verdict) plus SMT queries answered by both z3 and cvc5 (SV engine). distinct_nontrivial = distinct "
                "harnesses proved whose kani::cover reachability witnesses were ALL satisfiable (so the assertions were reached with the "
                "interesting branch taken) plus SV layouts whose vacuity twin (bound/4) came back sat. Harnesses differ in function/shape, "
                "SV layouts differ in master placement: all are distinct by construction.",
        "samples": samples,
        "exhaustive": False,
        "engines": {"kani": "0.68.0", "cbmc": "6.11.0", "sat": "CaDiCaL (CBMC default)", "smt": "z3 4.8.12 + cvc5 1.0 (SV)"},
        "harnesses_run": len([s for s in samples if "harness" in s]),
        "harnesses_proved": len([s for s in samples if s.get("status") == "proved" and "harness" in s]),
        "sv_queries": sv_queries,
        "solver_time_s": round(solver_s, 1),
        "source_digests_sha256": digests,
        "bounds_outside_claim": config.PROPERTIES.get(pid, {}).get("outside", ""),
    }
    if scan_record is not None:
        cov["narrowing_site_scan"] = scan_record
    ev = {
        "property_id": pid,
        "tier": tier,
        "seed": seed,
        "level": "model_checking",
        "coverage": cov,
        "assumptions": config.ASSUMPTIONS + config.PROPERTIES.get(pid, {}).get("assumptions", []),
        "wall_s": round(wall, 1),
        "violations": n_viol,
    }
    return ev
