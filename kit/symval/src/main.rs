//! SV engine — symbolic values through the code's own type parameter (DESIGN.md §1, §5 C07/C03).
//!
//! The real, compiled `VariationModel::deltas_with_rounding::<P, V>` and
//! `interpolate_from_deltas::<V>` of /repo/fontdrasil (unmodified, public API) are run on an
//! expression-recording value type. For a concrete master layout (the real
//! `VariationModel::new` runs natively) the recorded terms are handed to z3 AND cvc5:
//!     exists master values such that the value reconstructed at some master differs from
//!     that master by more than the bound?
//! `unsat` from both = the round trip holds for ALL master values for that layout.
//! `sat` = concrete master values, replayed through the same functions on plain f64.
//!
//!   symval run --prop C07|C03 --tier quick|thorough --seed N --workers W --out report.json
//!   symval replay <replay.json>
use std::cell::RefCell;
use std::collections::{HashMap, HashSet};
use std::io::{BufRead, BufReader, Write};
use std::ops::{Add, Mul, Sub};
use std::process::{Child, ChildStdin, ChildStdout, Command, Stdio};
use std::sync::{Arc, Mutex};
use std::time::Instant;

use fontdrasil::coords::{NormalizedCoord, NormalizedLocation};
use fontdrasil::variations::{RoundTiesEven, RoundingBehaviour, VariationModel};
use write_fonts::types::Tag;

// ------------------------------------------------------------------ term recorder
#[derive(Clone, Debug)]
enum Node {
    Zero,
    Var(usize),
    Round(u32),
    Scale(u32, f64),
    Sub(u32, u32),
    Add(u32, u32),
}

thread_local! { static ARENA: RefCell<Vec<Node>> = RefCell::new(vec![Node::Zero]); }

fn mk(n: Node) -> Sym {
    ARENA.with(|a| {
        let mut a = a.borrow_mut();
        a.push(n);
        Sym(a.len() as u32 - 1)
    })
}
fn arena_reset() { ARENA.with(|a| a.borrow_mut().truncate(1)); }
fn arena_snapshot() -> Vec<Node> { ARENA.with(|a| a.borrow().clone()) }

/// 1-D value (P = V = Sym)
#[derive(Clone, Copy, Debug)]
struct Sym(u32);
impl Default for Sym { fn default() -> Self { Sym(0) } }
impl Sub for Sym { type Output = Sym; fn sub(self, r: Sym) -> Sym { mk(Node::Sub(self.0, r.0)) } }
impl Add for Sym { type Output = Sym; fn add(self, r: Sym) -> Sym { mk(Node::Add(self.0, r.0)) } }
impl Mul<f64> for Sym { type Output = Sym; fn mul(self, c: f64) -> Sym { mk(Node::Scale(self.0, c)) } }
impl RoundTiesEven for Sym { fn round_ties_even(self) -> Sym { mk(Node::Round(self.0)) } }

/// 2-D instantiation mirroring kurbo::Point (P) / kurbo::Vec2 (V) as used by gvar
#[derive(Clone, Copy, Debug, Default)]
struct SymP2 { x: Sym, y: Sym }
#[derive(Clone, Copy, Debug, Default)]
struct SymV2 { x: Sym, y: Sym }
impl Sub for SymP2 { type Output = SymV2; fn sub(self, r: SymP2) -> SymV2 { SymV2 { x: self.x - r.x, y: self.y - r.y } } }
impl Sub for SymV2 { type Output = SymV2; fn sub(self, r: SymV2) -> SymV2 { SymV2 { x: self.x - r.x, y: self.y - r.y } } }
impl Add for SymV2 { type Output = SymV2; fn add(self, r: SymV2) -> SymV2 { SymV2 { x: self.x + r.x, y: self.y + r.y } } }
impl Mul<f64> for SymV2 { type Output = SymV2; fn mul(self, c: f64) -> SymV2 { SymV2 { x: self.x * c, y: self.y * c } } }
impl RoundTiesEven for SymV2 { fn round_ties_even(self) -> SymV2 { SymV2 { x: self.x.round_ties_even(), y: self.y.round_ties_even() } } }

/// evaluate a recorded term on concrete values (validation of the recorder against f64 runs)
fn eval(arena: &[Node], i: u32, vals: &[f64], memo: &mut HashMap<u32, f64>) -> f64 {
    if let Some(v) = memo.get(&i) { return *v; }
    let v = match &arena[i as usize] {
        Node::Zero => 0.0,
        Node::Var(k) => vals[*k],
        Node::Round(x) => eval(arena, *x, vals, memo).round_ties_even(),
        Node::Scale(x, c) => eval(arena, *x, vals, memo) * c,
        Node::Sub(a, b) => eval(arena, *a, vals, memo) - eval(arena, *b, vals, memo),
        Node::Add(a, b) => eval(arena, *a, vals, memo) + eval(arena, *b, vals, memo),
    };
    memo.insert(i, v);
    v
}

/// exact dyadic rational of an f64 as an SMT-LIB real term
fn rational(c: f64) -> String {
    assert!(c.is_finite());
    if c == 0.0 { return "0.0".into(); }
    let bits = c.to_bits();
    let sign = bits >> 63 != 0;
    let exp = ((bits >> 52) & 0x7ff) as i64;
    let frac = bits & ((1u64 << 52) - 1);
    let (mant, e) = if exp == 0 { (frac, -1074i64) } else { (frac | (1u64 << 52), exp - 1075) };
    // value = mant * 2^e ; reduce
    let tz = mant.trailing_zeros() as i64;
    let mant = mant >> tz;
    let e = e + tz;
    let body = if e >= 0 {
        format!("{}.0", (mant as u128) << e.min(60))
    } else if -e <= 120 {
        format!("(/ {}.0 {}.0)", mant, 1u128 << (-e))
    } else {
        // extremely small: emit as product of two powers
        format!("(/ (/ {}.0 {}.0) {}.0)", mant, 1u128 << 120, 1u128 << (-e - 120).min(120))
    };
    if sign { format!("(- {body})") } else { body }
}

// ------------------------------------------------------------------ layouts
#[derive(Clone, Debug)]
struct Layout { axes: usize, masters: Vec<Vec<f64>>, origin: String }

const TAGS: [&[u8; 4]; 4] = [b"wght", b"wdth", b"opsz", b"slnt"];
fn tags(n: usize) -> Vec<Tag> { (0..n).map(|i| Tag::new(TAGS[i])).collect() }
fn loc(coords: &[f64]) -> NormalizedLocation {
    coords.iter().enumerate().map(|(i, v)| (Tag::new(TAGS[i]), NormalizedCoord::new(*v))).collect::<Vec<_>>().into()
}

fn catalog() -> Vec<Layout> {
    let mut v = Vec::new();
    let mut add = |axes: usize, ms: &[&[f64]], origin: &str| {
        let mut masters = vec![vec![0.0; axes]];
        masters.extend(ms.iter().map(|m| m.to_vec()));
        v.push(Layout { axes, masters, origin: origin.to_string() });
    };
    // layouts pinned by fontdrasil's unit tests / fontTools models_test.py
    add(1, &[&[1.0]], "2-master weight");
    add(1, &[&[-1.0], &[1.0]], "3-master weight");
    add(1, &[&[0.5], &[1.0]], "intermediate + extreme");
    add(1, &[&[0.25], &[0.5], &[0.75], &[1.0]], "three intermediates");
    add(1, &[&[-1.0], &[-0.5], &[0.5], &[1.0]], "both sides with intermediates");
    add(2, &[&[1.0, 0.0], &[0.0, 1.0], &[1.0, 1.0]], "corner masters wght/wdth");
    add(2, &[&[1.0, 0.0], &[0.0, 1.0], &[1.0, 1.0], &[0.5, 0.5]], "corner + fixup (knockout) master");
    add(2, &[&[1.0, 0.0], &[0.0, 1.0], &[1.0, 1.0], &[0.5, 0.5], &[-1.0, 0.0]], "models_test: intermediate and negative");
    add(2, &[&[-1.0, 0.0], &[1.0, 0.0], &[0.0, -1.0], &[0.0, 1.0], &[-1.0, -1.0], &[1.0, 1.0], &[-1.0, 1.0], &[1.0, -1.0]], "many-master weight/width family");
    add(2, &[&[0.25, 0.0], &[0.75, 0.0], &[1.0, 0.0], &[0.0, 0.25], &[0.0, 0.75], &[0.0, 1.0], &[0.25, 0.25], &[0.75, 0.75], &[1.0, 1.0], &[0.5, 0.5]], "foo/bar family (models_test)");
    add(2, &[&[0.5, 0.5], &[1.0, 1.0]], "diagonal only (equal ratios)");
    add(2, &[&[0.5, 1.0], &[1.0, 0.5], &[1.0, 1.0]], "two off-diagonal + corner (ratio ties)");
    add(2, &[&[0.5, 0.0], &[1.0, 0.0], &[0.5, 1.0], &[1.0, 1.0]], "shared peak on one axis");
    add(2, &[&[1.0, 1.0]], "single corner, no on-axis masters");
    add(2, &[&[0.5, 0.25], &[0.25, 0.5], &[0.75, 0.75]], "interior masters only");
    add(3, &[&[1.0, 0.0, 0.0], &[0.0, 1.0, 0.0], &[0.0, 0.0, 1.0], &[1.0, 1.0, 0.0], &[1.0, 1.0, 1.0]], "3 axes partial corners");
    add(3, &[&[1.0, 0.0, 0.0], &[0.0, 1.0, 0.0], &[0.0, 0.0, -1.0], &[1.0, 1.0, -1.0], &[0.5, 0.5, -0.5]], "3 axes with interior");
    add(3, &[&[0.5, 0.5, 0.5], &[1.0, 1.0, 1.0], &[1.0, 0.5, 0.5]], "3 axes interior chain");
    add(1, &[&[-1.0], &[-0.75], &[-0.5], &[-0.25], &[0.25], &[0.5], &[0.75], &[1.0]], "dense one-axis");
    add(4, &[&[1.0, 0.0, 0.0, 0.0], &[0.0, 1.0, 0.0, 0.0], &[0.0, 0.0, 1.0, 0.0], &[0.0, 0.0, 0.0, 1.0], &[1.0, 1.0, 1.0, 1.0]], "4 axes static family + far corner");
    v
}

/// every set of m (1..=max_m, or exactly `only_m`) non-default masters on the k/den grid over `axes` axes
fn grid_layouts(axes: usize, den: i32, max_m: usize, only_m: Option<usize>, out: &mut Vec<Layout>) {
    let mut pts: Vec<Vec<f64>> = Vec::new();
    let side = (2 * den + 1) as usize;
    let total = side.pow(axes as u32);
    for code in 0..total {
        let mut c = code;
        let mut p = Vec::new();
        for _ in 0..axes { p.push(((c % side) as i32 - den) as f64 / den as f64); c /= side; }
        if p.iter().any(|x| *x != 0.0) { pts.push(p); }
    }
    fn rec(pts: &[Vec<f64>], start: usize, cur: &mut Vec<usize>, max_m: usize, only_m: Option<usize>, axes: usize, den: i32, out: &mut Vec<Layout>) {
        if !cur.is_empty() && only_m.map_or(true, |m| cur.len() == m) {
            let mut masters = vec![vec![0.0; axes]];
            masters.extend(cur.iter().map(|i| pts[*i].clone()));
            out.push(Layout { axes, masters, origin: format!("grid {axes}ax k/{den} m={}", cur.len()) });
        }
        if cur.len() == max_m { return; }
        for i in start..pts.len() { cur.push(i); rec(pts, i + 1, cur, max_m, only_m, axes, den, out); cur.pop(); }
    }
    rec(&pts, 0, &mut Vec::new(), max_m, only_m, axes, den, out);
}

/// 2 axes, every set of m masters strictly inside one quadrant (both coordinates non-zero, signs `sx`,`sy`) on the k/4 grid:
/// the masters that share their active axes, i.e. the ones whose regions trim each other in `master_influence`
fn quadrant_layouts(sx: f64, sy: f64, m: usize, out: &mut Vec<Layout>) {
    let mut pts = Vec::new();
    for a in 1..=4 { for b in 1..=4 { pts.push(vec![sx * a as f64 / 4.0, sy * b as f64 / 4.0]); } }
    fn rec(pts: &[Vec<f64>], start: usize, cur: &mut Vec<usize>, m: usize, out: &mut Vec<Layout>) {
        if cur.len() == m {
            let mut masters = vec![vec![0.0; 2]];
            masters.extend(cur.iter().map(|i| pts[*i].clone()));
            out.push(Layout { axes: 2, masters, origin: format!("quadrant 2ax k/4 m={m}") });
            return;
        }
        for i in start..pts.len() { cur.push(i); rec(pts, i + 1, cur, m, out); cur.pop(); }
    }
    rec(&pts, 0, &mut Vec::new(), m, out);
}

fn layouts_for(tier: &str) -> Vec<Layout> {
    let mut v = catalog();
    grid_layouts(1, 4, 4, None, &mut v);
    grid_layouts(2, 4, 2, None, &mut v);
    grid_layouts(2, 2, 4, None, &mut v);
    quadrant_layouts(1.0, 1.0, 3, &mut v);
    quadrant_layouts(-1.0, -1.0, 3, &mut v);
    quadrant_layouts(1.0, -1.0, 3, &mut v);
    quadrant_layouts(1.0, 1.0, 4, &mut v);
    if tier == "thorough" {
        grid_layouts(2, 4, 3, Some(3), &mut v);
        grid_layouts(3, 2, 3, None, &mut v);
        grid_layouts(1, 8, 4, None, &mut v);
    }
    v
}

// ------------------------------------------------------------------ solver processes
struct Solver { name: &'static str, child: Child, stdin: ChildStdin, stdout: BufReader<ChildStdout> }
impl Solver {
    fn spawn(name: &'static str) -> Solver {
        let mut cmd = match name {
            "z3" => { let mut c = Command::new("/usr/bin/z3"); c.args(["-in", "-smt2", "-t:20000"]); c }
            _ => { let mut c = Command::new("cvc5"); c.args(["--lang", "smt2", "--incremental", "--produce-models", "--tlimit-per=20000"]); c }
        };
        let mut child = cmd.stdin(Stdio::piped()).stdout(Stdio::piped()).stderr(Stdio::null()).spawn().expect("spawn solver");
        let stdin = child.stdin.take().unwrap();
        let stdout = BufReader::new(child.stdout.take().unwrap());
        let mut s = Solver { name, child, stdin, stdout };
        s.send("(set-option :produce-models true)\n(set-logic ALL)\n");
        s
    }
    fn send(&mut self, s: &str) { self.stdin.write_all(s.as_bytes()).expect("solver stdin"); }
    fn line(&mut self) -> String {
        let mut l = String::new();
        self.stdin.flush().ok();
        self.stdout.read_line(&mut l).expect("solver stdout");
        l.trim().to_string()
    }
    /// check-sat: "sat" | "unsat" | anything else = inconclusive
    fn check(&mut self) -> String { self.send("(check-sat)\n"); self.line() }
    fn get_values(&mut self, names: &[String]) -> Option<Vec<f64>> {
        self.send(&format!("(get-value ({}))\n", names.join(" ")));
        // read balanced s-expression
        let mut text = String::new();
        let mut depth = 0i32;
        loop {
            let l = self.line();
            if l.is_empty() && text.is_empty() { return None; }
            for ch in l.chars() { if ch == '(' { depth += 1 } else if ch == ')' { depth -= 1 } }
            text.push_str(&l); text.push(' ');
            if depth <= 0 { break; }
        }
        parse_values(&text, names.len())
    }
}
impl Drop for Solver { fn drop(&mut self) { let _ = self.stdin.write_all(b"(exit)\n"); let _ = self.child.kill(); let _ = self.child.wait(); } }

// minimal s-expression reader for ((name value) ...)
#[derive(Debug)]
enum Sx { Atom(String), List(Vec<Sx>) }
fn parse_sx(tokens: &[String], pos: &mut usize) -> Option<Sx> {
    let t = tokens.get(*pos)?;
    *pos += 1;
    if t == "(" {
        let mut v = Vec::new();
        while tokens.get(*pos)? != ")" { v.push(parse_sx(tokens, pos)?); }
        *pos += 1;
        Some(Sx::List(v))
    } else { Some(Sx::Atom(t.clone())) }
}
fn sx_num(s: &Sx) -> Option<f64> {
    match s {
        Sx::Atom(a) => a.parse::<f64>().ok(),
        Sx::List(v) => match v.as_slice() {
            [Sx::Atom(op), a] if op == "-" => Some(-sx_num(a)?),
            [Sx::Atom(op), a, b] if op == "/" => Some(sx_num(a)? / sx_num(b)?),
            [Sx::Atom(op), a, b] if op == "-" => Some(sx_num(a)? - sx_num(b)?),
            [Sx::Atom(op), a] if op == "to_real" => sx_num(a),
            _ => None,
        },
    }
}
fn parse_values(text: &str, n: usize) -> Option<Vec<f64>> {
    let spaced = text.replace('(', " ( ").replace(')', " ) ");
    let tokens: Vec<String> = spaced.split_whitespace().map(|s| s.to_string()).collect();
    let mut pos = 0;
    let sx = parse_sx(&tokens, &mut pos)?;
    let Sx::List(items) = sx else { return None };
    let mut out = Vec::new();
    for it in items {
        let Sx::List(pair) = it else { return None };
        out.push(sx_num(pair.get(1)?)?);
    }
    if out.len() == n { Some(out) } else { None }
}

// ------------------------------------------------------------------ one layout -> queries
#[derive(Clone, Copy, PartialEq, Debug)]
enum Mode { NoRoundLra, RoundLra, RoundLira }

struct Recorded {
    arena: Vec<Node>,
    /// per master j (in layout order, only those in the subset): reconstructed term ids (one per value component)
    recon: Vec<(usize, Vec<u32>)>,
    /// var index per (master, component)
    nvars: usize,
    var_of: Vec<Vec<usize>>,
}

fn build_model(l: &Layout) -> VariationModel {
    let locs: HashSet<NormalizedLocation> = l.masters.iter().map(|m| loc(m)).collect();
    VariationModel::new(locs, tags(l.axes))
}

/// run the real generic functions on recorded values. `dim` = 1 (Sym) or 2 (SymP2/SymV2), `subset` = masters that define values
fn record(l: &Layout, model: &VariationModel, rounding: RoundingBehaviour, dim: usize, subset: &[usize]) -> Result<Recorded, String> {
    arena_reset();
    let mut var_of = vec![vec![]; l.masters.len()];
    let mut nvars = 0;
    for &j in subset { for _ in 0..dim { var_of[j].push(nvars); nvars += 1; } }
    let mut recon = Vec::new();
    if dim == 1 {
        let mut pts: HashMap<NormalizedLocation, Vec<Sym>> = HashMap::new();
        for &j in subset { pts.insert(loc(&l.masters[j]), vec![mk(Node::Var(var_of[j][0]))]); }
        let deltas = model.deltas_with_rounding::<Sym, Sym>(&pts, rounding).map_err(|e| format!("deltas: {e}"))?;
        for &j in subset {
            let back = model.interpolate_from_deltas(&loc(&l.masters[j]), &deltas);
            if back.len() != 1 { return Err(format!("interpolate returned {} values at master {j}", back.len())); }
            recon.push((j, vec![back[0].0]));
        }
    } else {
        let mut pts: HashMap<NormalizedLocation, Vec<SymP2>> = HashMap::new();
        for &j in subset {
            pts.insert(loc(&l.masters[j]), vec![SymP2 { x: mk(Node::Var(var_of[j][0])), y: mk(Node::Var(var_of[j][1])) }]);
        }
        let deltas = model.deltas_with_rounding::<SymP2, SymV2>(&pts, rounding).map_err(|e| format!("deltas: {e}"))?;
        for &j in subset {
            let back = model.interpolate_from_deltas(&loc(&l.masters[j]), &deltas);
            if back.len() != 1 { return Err(format!("interpolate returned {} values at master {j}", back.len())); }
            recon.push((j, vec![back[0].x.0, back[0].y.0]));
        }
    }
    Ok(Recorded { arena: arena_snapshot(), recon, nvars, var_of })
}

/// SMT-LIB text of one query (inside push/pop). bound: |recon - v| > bound is asked for.
fn emit(rec: &Recorded, mode: Mode, bound: f64, premises_only: bool) -> (String, Vec<String>) {
    let mut s = String::from("(push 1)\n");
    let int_vals = mode == Mode::RoundLira;
    let mut names = Vec::new();
    for k in 0..rec.nvars {
        s.push_str(&format!("(declare-const v{k} {})\n", if int_vals { "Int" } else { "Real" }));
        names.push(format!("v{k}"));
    }
    // reachable nodes only
    let mut need = vec![false; rec.arena.len()];
    let mut stack: Vec<u32> = rec.recon.iter().flat_map(|(_, v)| v.iter().copied()).collect();
    while let Some(i) = stack.pop() {
        if need[i as usize] { continue; }
        need[i as usize] = true;
        match &rec.arena[i as usize] {
            Node::Round(x) | Node::Scale(x, _) => stack.push(*x),
            Node::Sub(a, b) | Node::Add(a, b) => { stack.push(*a); stack.push(*b); }
            _ => {}
        }
    }
    for (i, n) in rec.arena.iter().enumerate() {
        if !need[i] { continue; }
        let body = match n {
            Node::Zero => "0.0".to_string(),
            Node::Var(k) => if int_vals { format!("(to_real v{k})") } else { format!("v{k}") },
            Node::Scale(x, c) => format!("(* {} n{x})", rational(*c)),
            Node::Sub(a, b) => format!("(- n{a} n{b})"),
            Node::Add(a, b) => format!("(+ n{a} n{b})"),
            Node::Round(x) => match mode {
                Mode::NoRoundLra => format!("n{x}"), // unreachable in practice: no Round nodes without rounding
                Mode::RoundLra => {
                    s.push_str(&format!("(declare-const e{i} Real)\n(assert (and (<= (- 0.5) e{i}) (<= e{i} 0.5)))\n"));
                    format!("(+ n{x} e{i})")
                }
                Mode::RoundLira => {
                    s.push_str(&format!("(declare-const r{i} Int)\n"));
                    // r is an integer within 1/2 of x (either tie direction: superset of ties-to-even)
                    s.push_str(&format!("(define-fun n{i} () Real (to_real r{i}))\n(assert (and (<= (- n{x} 0.5) n{i}) (<= n{i} (+ n{x} 0.5))))\n"));
                    continue;
                }
            },
        };
        s.push_str(&format!("(define-fun n{i} () Real {body})\n"));
    }
    if !premises_only {
        let mut bad = Vec::new();
        for (j, comps) in &rec.recon {
            for (c, id) in comps.iter().enumerate() {
                let v = rec.var_of[*j][c];
                let vt = if int_vals { format!("(to_real v{v})") } else { format!("v{v}") };
                let b = rational(bound);
                bad.push(format!("(> (- n{id} {vt}) {b}) (> (- {vt} n{id}) {b})"));
                // exact at the default when master values are integers (LIRA): delta_0 = round(v_0) = v_0
                if int_vals && *j == 0 { bad.push(format!("(not (= n{id} {vt}))")); }
            }
        }
        s.push_str(&format!("(assert (or {}))\n", bad.join(" ")));
    }
    (s, names)
}

#[derive(Default, Clone)]
struct Stats {
    layouts: usize, queries: usize, unsat: usize, sat_twins: usize, nontrivial_layouts: usize,
    inconclusive: Vec<String>, violations: Vec<String>, solver_s: f64, record_s: f64, samples: Vec<String>,
    recorder_validations: usize,
}

fn json_escape(s: &str) -> String { s.replace('\\', "\\\\").replace('"', "\\\"").replace('\n', " ") }
fn layout_json(l: &Layout) -> String {
    format!("{{\"axes\": {}, \"masters\": {:?}, \"origin\": \"{}\"}}", l.axes, l.masters, json_escape(&l.origin))
}

/// native side conditions on the real model for this layout (concrete, so plain execution):
/// region validity and scalars in [0,1] at every master — C07's region clause on the enumerated grid.
fn region_facts(l: &Layout, model: &VariationModel) -> Result<(), String> {
    let mut pts: HashMap<NormalizedLocation, Vec<f64>> = HashMap::new();
    for m in &l.masters { pts.insert(loc(m), vec![0.0]); }
    let deltas = model.deltas_with_rounding::<f64, f64>(&pts, RoundingBehaviour::None).map_err(|e| format!("{e}"))?;
    if deltas.len() != l.masters.len() { return Err(format!("{} delta sets for {} masters", deltas.len(), l.masters.len())); }
    for (region, _) in &deltas {
        for (tag, t) in region.iter() {
            let (mn, pk, mx) = (t.min.to_f64(), t.peak.to_f64(), t.max.to_f64());
            if !(mn <= pk && pk <= mx && mn >= -1.0 && mx <= 1.0 && !(mn < 0.0 && mx > 0.0)) {
                return Err(format!("invalid tent {tag}: ({mn}, {pk}, {mx})"));
            }
        }
        for m in &l.masters {
            let s = region.scalar_at(&loc(m)).into_inner();
            if !(s.is_finite() && (0.0..=1.0).contains(&s)) { return Err(format!("scalar {s} at master {m:?}")); }
        }
    }
    Ok(())
}

/// the same check on plain f64 values: returns the worst |recon - v| over masters/components
fn native_error(l: &Layout, rounding: RoundingBehaviour, dim: usize, subset: &[usize], vals: &[f64]) -> Result<f64, String> {
    let model = build_model(l);
    let mut worst: f64 = 0.0;
    if dim == 1 {
        let mut pts: HashMap<NormalizedLocation, Vec<f64>> = HashMap::new();
        for (k, &j) in subset.iter().enumerate() { pts.insert(loc(&l.masters[j]), vec![vals[k]]); }
        let deltas = model.deltas_with_rounding::<f64, f64>(&pts, rounding).map_err(|e| format!("{e}"))?;
        for (k, &j) in subset.iter().enumerate() {
            let back = model.interpolate_from_deltas(&loc(&l.masters[j]), &deltas);
            let b = back.first().copied().unwrap_or(f64::NAN);
            let err = (b - vals[k]).abs();
            if !(err <= worst) { worst = if err.is_nan() { f64::INFINITY } else { err.max(worst) }; }
        }
    } else {
        use kurbo::{Point, Vec2};
        let mut pts: HashMap<NormalizedLocation, Vec<Point>> = HashMap::new();
        for (k, &j) in subset.iter().enumerate() { pts.insert(loc(&l.masters[j]), vec![Point::new(vals[2 * k], vals[2 * k + 1])]); }
        let deltas = model.deltas_with_rounding::<Point, Vec2>(&pts, rounding).map_err(|e| format!("{e}"))?;
        for (k, &j) in subset.iter().enumerate() {
            let back = model.interpolate_from_deltas(&loc(&l.masters[j]), &deltas);
            let b = back.first().copied().unwrap_or(Vec2::new(f64::NAN, f64::NAN));
            for (got, want) in [(b.x, vals[2 * k]), (b.y, vals[2 * k + 1])] {
                let err = (got - want).abs();
                if !(err <= worst) { worst = if err.is_nan() { f64::INFINITY } else { err.max(worst) }; }
            }
        }
    }
    Ok(worst)
}

fn subsets_for(l: &Layout, tier: &str) -> Vec<Vec<usize>> {
    let n = l.masters.len();
    let full: Vec<usize> = (0..n).collect();
    let mut v = vec![full];
    // sparse masters: every subset containing the default, for small layouts
    let limit = if tier == "thorough" { 5 } else { 4 };
    if n >= 3 && n <= limit {
        for mask in 0u32..(1 << (n - 1)) {
            let s: Vec<usize> = std::iter::once(0).chain((1..n).filter(|i| mask >> (i - 1) & 1 == 1)).collect();
            if s.len() < n && s.len() >= 2 { v.push(s); }
        }
    }
    v
}

const TOL: f64 = 1e-9;

fn process_layout(l: &Layout, prop: &str, tier: &str, z3: &mut Solver, cvc: &mut Solver, st: &mut Stats, out_dir: &str) {
    st.layouts += 1;
    let t0 = Instant::now();
    let model = build_model(l);
    if let Err(e) = region_facts(l, &model) {
        let path = write_replay(out_dir, prop, l, "region-facts", 1, &[], &[], &e);
        st.violations.push(format!("{path}|region facts violated: {e}|{}", layout_json(l)));
        return;
    }
    let dim = if prop == "C03" { 2 } else { 1 };
    let mut layout_ok = true;
    let mut layout_twin = false;
    for subset in subsets_for(l, tier) {
        for mode in [Mode::NoRoundLra, Mode::RoundLra, Mode::RoundLira] {
            let rounding = if mode == Mode::NoRoundLra { RoundingBehaviour::None } else { RoundingBehaviour::RoundTiesEven };
            let rec = match record(l, &model, rounding, dim, &subset) {
                Ok(r) => r,
                Err(e) => { st.violations.push(format!("|recording failed: {e}|{}", layout_json(l))); return; }
            };
            // validate the recorder against a plain f64 run on one value vector
            if st.recorder_validations < 200 || st.layouts % 97 == 0 {
                let vals: Vec<f64> = (0..rec.nvars).map(|k| ((k * 37 + st.layouts * 11) % 201) as f64 - 100.0 + if mode == Mode::NoRoundLra { 0.25 } else { 0.0 }).collect();
                let mut worst_sym: f64 = 0.0;
                for (j, comps) in &rec.recon { for (c, id) in comps.iter().enumerate() {
                    let got = eval(&rec.arena, *id, &vals, &mut HashMap::new());
                    worst_sym = worst_sym.max((got - vals[rec.var_of[*j][c]]).abs());
                } }
                let worst_nat = native_error(l, rounding, dim, &subset, &vals).unwrap_or(f64::INFINITY);
                if (worst_sym - worst_nat).abs() > 1e-6 {
                    st.inconclusive.push(format!("recorder disagrees with f64 run: sym {worst_sym} native {worst_nat} {}", layout_json(l)));
                    return;
                }
                st.recorder_validations += 1;
            }
            st.record_s += t0.elapsed().as_secs_f64();
            let bound = if mode == Mode::NoRoundLra { TOL } else { 0.5 + TOL };
            let (q, names) = emit(&rec, mode, bound, false);
            let ts = Instant::now();
            z3.send(&q); let a = z3.check();
            cvc.send(&q); let b = cvc.check();
            st.queries += 1;
            if a == "unsat" && b == "unsat" {
                st.unsat += 1;
            } else if a == "sat" || b == "sat" {
                // concrete master values -> native replay
                let vals = if a == "sat" { z3.get_values(&names) } else { cvc.get_values(&names) };
                layout_ok = false;
                match vals {
                    Some(vals) => {
                        let err = native_error(l, rounding, dim, &subset, &vals).unwrap_or(f64::INFINITY);
                        let nat_bound = if mode == Mode::NoRoundLra { 1e-6 * (1.0 + vals.iter().fold(0.0f64, |m, v| m.max(v.abs()))) } else { 0.5 + 1e-6 };
                        if err > nat_bound {
                            let path = write_replay(out_dir, prop, l, &format!("{mode:?}"), dim, &subset, &vals, &format!("native error {err} > {nat_bound}"));
                            st.violations.push(format!("{path}|round trip off by {err} (bound {nat_bound}) z3={a} cvc5={b}|{}", layout_json(l)));
                        } else {
                            st.inconclusive.push(format!("NON-REPRODUCING model (native error {err}) mode {mode:?} z3={a} cvc5={b} {}", layout_json(l)));
                        }
                    }
                    None => st.inconclusive.push(format!("sat without readable model z3={a} cvc5={b} {}", layout_json(l))),
                }
            } else {
                layout_ok = false;
                st.inconclusive.push(format!("solver answers z3={a} cvc5={b} mode {mode:?} {}", layout_json(l)));
            }
            z3.send("(pop 1)\n"); cvc.send("(pop 1)\n");
            // vacuity twin on the full master set with rounding: a quarter of the bound must be violable
            if mode == Mode::RoundLra && subset.len() == l.masters.len() {
                let (q, _) = emit(&rec, mode, (0.5 + TOL) / 4.0, false);
                z3.send(&q); let a = z3.check(); z3.send("(pop 1)\n");
                cvc.send(&q); let b = cvc.check(); cvc.send("(pop 1)\n");
                st.queries += 1;
                if a == "sat" && b == "sat" { st.sat_twins += 1; layout_twin = true; }
                else { st.inconclusive.push(format!("vacuity twin not sat (z3={a} cvc5={b}) {}", layout_json(l))); layout_ok = false; }
            }
            st.solver_s += ts.elapsed().as_secs_f64();
            if st.samples.len() < 6 && st.layouts % 1000 == 1 {
                st.samples.push(format!("{{\"layout\": {}, \"mode\": \"{mode:?}\", \"subset\": {:?}, \"nodes\": {}, \"z3\": \"{a}\", \"cvc5\": \"{b}\"}}", layout_json(l), subset, rec.arena.len()));
            }
        }
    }
    if layout_ok && layout_twin { st.nontrivial_layouts += 1; }
}

static REPLAYS_WRITTEN: std::sync::atomic::AtomicUsize = std::sync::atomic::AtomicUsize::new(0);

fn write_replay(out_dir: &str, prop: &str, l: &Layout, mode: &str, dim: usize, subset: &[usize], vals: &[f64], what: &str) -> String {
    // a broken model violates thousands of layouts: the first 25 replay files are enough
    if REPLAYS_WRITTEN.fetch_add(1, std::sync::atomic::Ordering::Relaxed) >= 25 { return String::new(); }
    std::fs::create_dir_all(out_dir).ok();
    let h = {
        let s = format!("{:?}{mode}{subset:?}", l.masters);
        let mut x: u64 = 1469598103934665603;
        for b in s.bytes() { x ^= b as u64; x = x.wrapping_mul(1099511628211); }
        x
    };
    let path = format!("{out_dir}/{prop}-sv-{h:016x}.json");
    let body = format!(
        "{{\"kind\": \"sv\", \"property\": \"{prop}\", \"layout\": {}, \"mode\": \"{mode}\", \"dim\": {dim}, \"subset\": {subset:?}, \"values\": {vals:?}, \"what\": \"{}\", \"replay_cmd\": \"bin/vk replay {path}\"}}\n",
        layout_json(l), json_escape(what));
    std::fs::write(&path, body).ok();
    path
}

fn run(args: &[String]) {
    let get = |k: &str, d: &str| -> String { args.iter().position(|a| a == k).and_then(|i| args.get(i + 1)).cloned().unwrap_or(d.to_string()) };
    let prop = get("--prop", "C07");
    let tier = get("--tier", "quick");
    let seed: usize = get("--seed", "0").parse().unwrap_or(0);
    let workers: usize = get("--workers", "8").parse().unwrap_or(8);
    let out = get("--out", "/dev/stdout");
    let replay_dir = get("--replay-dir", "/tmp");
    let budget_s: f64 = get("--budget", "1e9").parse().unwrap_or(1e9);
    let mut layouts = layouts_for(&tier);
    if prop == "C03" {
        // the 2-D instantiation doubles the variables; same layouts
    }
    let n = layouts.len();
    // VERIF_SEED only rotates the processing order (matters only if the budget cuts the run short)
    if n > 0 { layouts.rotate_left(seed % n); }
    let layouts = Arc::new(layouts);
    let next = Arc::new(Mutex::new(0usize));
    let t0 = Instant::now();
    let mut handles = Vec::new();
    for _ in 0..workers {
        let layouts = layouts.clone();
        let next = next.clone();
        let (prop, tier, replay_dir) = (prop.clone(), tier.clone(), replay_dir.clone());
        handles.push(std::thread::spawn(move || {
            let mut z3 = Solver::spawn("z3");
            let mut cvc = Solver::spawn("cvc5");
            let mut st = Stats::default();
            loop {
                let i = { let mut g = next.lock().unwrap(); let i = *g; *g += 16; i };
                if i >= layouts.len() || t0.elapsed().as_secs_f64() > budget_s { break; }
                for l in layouts[i..(i + 16).min(layouts.len())].iter() {
                    process_layout(l, &prop, &tier, &mut z3, &mut cvc, &mut st, &replay_dir);
                }
            }
            st
        }));
    }
    let mut tot = Stats::default();
    for h in handles {
        let s = h.join().expect("worker");
        tot.layouts += s.layouts; tot.queries += s.queries; tot.unsat += s.unsat; tot.sat_twins += s.sat_twins;
        tot.nontrivial_layouts += s.nontrivial_layouts; tot.solver_s += s.solver_s; tot.record_s += s.record_s;
        tot.recorder_validations += s.recorder_validations;
        tot.inconclusive.extend(s.inconclusive); tot.violations.extend(s.violations); tot.samples.extend(s.samples);
    }
    // replay files exist for the first 25 violations only: list those first, so the report's first entry names a file
    tot.violations.sort_by_key(|v| v.starts_with('|'));
    let cut = tot.layouts < n;
    let q = |v: &Vec<String>, cap: usize| -> String { v.iter().take(cap).map(|s| format!("\"{}\"", json_escape(s))).collect::<Vec<_>>().join(", ") };
    let report = format!(
        "{{\"prop\": \"{prop}\", \"tier\": \"{tier}\", \"layouts_total\": {n}, \"layouts_enumerated\": {}, \"cut_short_by_budget\": {cut}, \"queries\": {}, \"unsat\": {}, \"vacuity_twins_sat\": {}, \"nontrivial_layouts\": {}, \"recorder_validations\": {}, \"solver_s\": {:.2}, \"wall_s\": {:.2}, \"workers\": {workers}, \"n_inconclusive\": {}, \"n_violations\": {}, \"inconclusive\": [{}], \"violations\": [{}], \"samples\": [{}]}}\n",
        tot.layouts, tot.queries, tot.unsat, tot.sat_twins, tot.nontrivial_layouts, tot.recorder_validations, tot.solver_s, t0.elapsed().as_secs_f64(),
        tot.inconclusive.len(), tot.violations.len(), q(&tot.inconclusive, 20), q(&tot.violations, 20), tot.samples.iter().take(8).cloned().collect::<Vec<_>>().join(", "));
    std::fs::write(&out, report).expect("write report");
}

fn replay(path: &str) -> i32 {
    let text = std::fs::read_to_string(path).expect("read replay");
    // tiny ad-hoc extraction (the file is written by write_replay above)
    let grab = |key: &str| -> String {
        let i = text.find(&format!("\"{key}\": ")).expect(key) + key.len() + 4;
        let rest = &text[i..];
        let mut depth = 0i32; let mut end = 0;
        for (k, ch) in rest.char_indices() {
            match ch { '[' | '{' => depth += 1, ']' | '}' => { if depth == 0 { end = k; break; } depth -= 1; if depth == 0 { end = k + 1; break; } }, ',' if depth == 0 => { end = k; break; }, _ => {} }
        }
        rest[..end].trim().trim_matches('"').to_string()
    };
    let nums = |s: &str| -> Vec<f64> { s.replace(['[', ']'], " ").split(',').filter_map(|x| x.trim().parse::<f64>().ok()).collect() };
    let axes: usize = grab("axes").parse().unwrap();
    let masters_s = grab("masters");
    let flat = nums(&masters_s);
    let masters: Vec<Vec<f64>> = flat.chunks(axes).map(|c| c.to_vec()).collect();
    let l = Layout { axes, masters, origin: "replay".into() };
    let mode = grab("mode");
    let prop = grab("property");
    if mode == "region-facts" {
        let model = build_model(&l);
        return match region_facts(&l, &model) {
            Err(e) => { println!("reproduced: {e}"); println!("VIOLATION property={prop} replay={path}"); 1 }
            Ok(()) => { println!("not reproduced: region facts hold"); 0 }
        };
    }
    let dim: usize = grab("dim").parse().unwrap();
    let subset: Vec<usize> = nums(&grab("subset")).iter().map(|x| *x as usize).collect();
    let vals = nums(&grab("values"));
    let rounding = if mode == "NoRoundLra" { RoundingBehaviour::None } else { RoundingBehaviour::RoundTiesEven };
    let err = native_error(&l, rounding, dim, &subset, &vals).unwrap_or(f64::INFINITY);
    let bound = if mode == "NoRoundLra" { 1e-6 * (1.0 + vals.iter().fold(0.0f64, |m, v| m.max(v.abs()))) } else { 0.5 + 1e-6 };
    println!("layout {:?} subset {subset:?} values {vals:?}: worst |reconstructed - master| = {err} (bound {bound})", l.masters);
    if err > bound { println!("VIOLATION property={prop} replay={path}"); 1 } else { println!("not reproduced"); 0 }
}

fn main() {
    let args: Vec<String> = std::env::args().collect();
    match args.get(1).map(|s| s.as_str()) {
        Some("run") => run(&args[2..]),
        Some("replay") => std::process::exit(replay(&args[2])),
        Some("count") => { println!("quick {} thorough {}", layouts_for("quick").len(), layouts_for("thorough").len()); }
        _ => { eprintln!("usage: symval run|replay|count"); std::process::exit(2); }
    }
}
