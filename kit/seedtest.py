#!/usr/bin/env python3
"""Run the registered checks against a seeded change (never committed to /repo).

  seedtest.py <seed-dir> <property> [--tier quick|thorough]

<seed-dir> holds patch.diff (against /repo HEAD). The patch is applied to /repo's working tree,
`bin/vk check <property>` runs, and the patch is undone straight afterwards. Prints the check's
exit code and verdict lines; appends the outcome to <seed-dir>/runs.jsonl.
"""
import json
import os
import subprocess
import sys
import time

VERIF = os.path.dirname(os.path.dirname(os.path.abspath(__file__)))


def main():
    seed, prop = sys.argv[1], sys.argv[2]
    tier = sys.argv[sys.argv.index("--tier") + 1] if "--tier" in sys.argv else "quick"
    patch = os.path.abspath(os.path.join(seed, "patch.diff"))
    st = subprocess.run(["git", "-C", "/repo", "status", "--porcelain", "--untracked-files=no"], capture_output=True, text=True).stdout.strip()
    if st:
        print("refusing: /repo working tree is not clean:\n" + st)
        return 3
    subprocess.run(["git", "-C", "/repo", "apply", "--check", patch], check=True)
    subprocess.run(["git", "-C", "/repo", "apply", patch], check=True)
    t0 = time.time()
    # the check rewrites evidence/<prop>.json: what it writes while a seeded change is applied is NOT evidence about /repo —
    # keep the clean-tree record and put it back afterwards (the seeded run's record goes to <seed-dir>/evidence-<prop>.json)
    evid = os.path.join(VERIF, "evidence", f"{prop}.json")
    saved = open(evid).read() if os.path.exists(evid) else None
    try:
        p = subprocess.run([os.path.join(VERIF, "bin", "vk"), "check", prop, "--tier", tier], cwd=VERIF, capture_output=True, text=True)
    finally:
        subprocess.run(["git", "-C", "/repo", "checkout", "--", "."], check=True)
        if os.path.exists(evid):
            os.replace(evid, os.path.join(seed, f"evidence-{prop}.json"))
        if saved is not None:
            open(evid, "w").write(saved)
    out = p.stdout + p.stderr
    lines = [l for l in out.split("\n") if l.startswith(("VIOLATION", "  harness", "INCONCLUSIVE", "OK ", "KNOWN-FINDING")) or "counterexample" in l]
    print("\n".join(lines))
    print(f"exit={p.returncode} wall={time.time() - t0:.0f}s")
    rec = {"property": prop, "tier": tier, "exit": p.returncode, "wall_s": round(time.time() - t0), "lines": lines,
           "verif_commit": subprocess.run(["git", "-C", VERIF, "log", "--format=%h", "-1"], capture_output=True, text=True).stdout.strip()}
    with open(os.path.join(seed, "runs.jsonl"), "a") as f:
        f.write(json.dumps(rec) + "\n")
    return 0


if __name__ == "__main__":
    sys.exit(main())
