"""BV engine driver — solver validation of overlay_feature_variations over all designspace points (kit/boxval).

The native crate kit/boxval has path dependencies on the UNMODIFIED /repo/fontir and /repo/fontdrasil and is rebuilt from
/repo's working tree on every run (cargo notices edits). For every enumerated rule layout the real function runs natively and
z3 + cvc5 decide `for all points p: first matching output box == source rules at p`."""
import json
import os
import re
import shutil
import subprocess
import time

import overlay

VERIF = overlay.VERIF
CACHE = os.path.join(VERIF, ".cache")
CRATE = os.path.join(VERIF, "kit", "boxval")
BIN = os.path.join(CACHE, "boxval", "debug", "boxval")

BUDGET_S = {"quick": 900, "thorough": 3000}
WORKERS = {"quick": 12, "thorough": 14}
KNOWN_LABEL = "same_region_rules_merged_at_the_later_position"


def _env():
    e = dict(os.environ)
    e["CARGO_NET_OFFLINE"] = "true"
    e.pop("RUSTFLAGS", None)
    e.pop("CARGO_TARGET_DIR", None)
    return e


def build(verbose=False):
    shutil.copy(os.path.join(overlay.REPO, "Cargo.lock"), os.path.join(CRATE, "Cargo.lock"))
    p = subprocess.run(["cargo", "build", "--offline", "--target-dir", os.path.join(CACHE, "boxval")],
                       cwd=CRATE, env=_env(), stdout=subprocess.PIPE, stderr=subprocess.STDOUT, text=True)
    if verbose or p.returncode != 0:
        print(p.stdout[-3000:])
    return p.returncode


def run(pid, tier, seed, known_findings):
    t0 = time.time()
    if build() != 0:
        return [{"batch": "bv-C16", "status": "encoding_failed",
                 "note": "kit/boxval does not build against /repo/fontir (public API of overlay_feature_variations / NBox / Region changed?)",
                 "wall_s": round(time.time() - t0, 1), "queries": 0, "nontrivial": 0}]
    out = os.path.join(CACHE, f"bv-{pid}-{tier}.json")
    rdir = os.path.join(VERIF, "evidence", "replays")
    os.makedirs(rdir, exist_ok=True)
    if os.path.exists(out):
        os.remove(out)
    p = subprocess.run([BIN, "run", "--tier", tier, "--seed", str(seed), "--workers", str(WORKERS[tier]),
                        "--budget", str(BUDGET_S[tier]), "--out", out, "--replay-dir", rdir],
                       env=_env(), stdout=subprocess.PIPE, stderr=subprocess.STDOUT, text=True)
    if p.returncode != 0 or not os.path.exists(out):
        return [{"batch": "bv-C16", "status": "error", "note": p.stdout[-500:], "wall_s": round(time.time() - t0, 1), "queries": 0, "nontrivial": 0}]
    d = json.load(open(out))
    rec = {
        "batch": f"bv-{pid}-{tier}: overlay_feature_variations validated for all designspace points",
        "functions": ["fontir/src/feature_variations.rs::overlay_feature_variations (whole function: merge_same_sub_rules, merge_same_region_rules, "
                      "the overlay loop, NBox::overlay_onto, Rank, the sort by contributing rules) — run natively per enumerated rule layout"],
        "bound": "designspace POINTS: all real vectors in [-1,1]^n except points lying exactly on a bound of a rule box (LRA, decided by z3 and cvc5). "
                 "rule LAYOUTS: enumerated, not solved — catalog (two-box regions, same-region rules, same-substitution rules, 65/66/130 rules) + "
                 + ("1 axis k/2 grid 1-3 rules; 2 axes k/2 grid 2 rules; 2 axes {-1,0,1} 3 rules" if tier == "quick" else
                    "quick set + 1 axis k/2 4 rules; 1 axis k/4 2 rules; 2 axes {-1,0,1} 4 rules; 3 axes {-1,0,1} 2 rules")
                 + "; one box per rule, every rule substitutes the shared glyph `a` by its own target and one glyph of its own",
        "oracle": "per glyph: target applied by the FIRST output box containing p (first map in its list that has the glyph) == target of the first source rule, "
                  "in source order, whose region contains p and that substitutes the glyph; vacuity twin: the reference without rule 0 must be distinguishable (sat)",
        "queries": d["queries"], "unsat": d["unsat"], "vacuity_twins_sat": d["vacuity_twins_sat"], "nontrivial": d["nontrivial_layouts"],
        "layouts_enumerated": d["layouts_enumerated"], "layouts_total": d["layouts_total"], "output_boxes": d["output_boxes"],
        "known_finding_layouts": d["n_known"], "solver_s": d["solver_s"], "wall_s": round(time.time() - t0, 1), "sample_queries": d["samples"][:3],
    }
    kf = [k for k in known_findings if k.get("status", "known") == "known" and k["property"] == pid and k.get("assertion_label") == KNOWN_LABEL]
    if d["n_violations"]:
        with_file = [v for v in d["violations"] if v.split("|")[0]]
        first = (with_file or d["violations"])[0].split("|")
        rec["status"] = "violation"
        rec["note"] = "%d layouts violate; first: %s" % (d["n_violations"], first[1][:300] if len(first) > 1 else "")
        path = first[0]
        if not path and len(first) > 2:
            # no file was written for this one (cap of 25 per run): write it from the report entry
            m = re.match(r"at \[([^\]]*)\]", first[1])
            path = os.path.join(rdir, "C16-bv-first-violation.json")
            try:
                json.dump({"kind": "bv", "property": "C16", "layout": json.loads(first[2]), "point": [float(x) for x in m.group(1).split(",")] if m else [],
                           "what": first[1], "replay_cmd": "bin/vk replay " + path}, open(path, "w"))
            except Exception:
                path = first[0]
        rec["replay"] = {"path": path, "labels": ["output differs from the source rules at a point"]}
        rec["violations"] = [v[:600] for v in d["violations"][:10]]
    elif d["n_known"] and not kf:
        # the deviation is explained by the fontTools pre-pass but no known finding lists it: it is a violation
        first = d["known"][0].split("|")
        rec["status"] = "violation"
        rec["note"] = "same-region merge deviates from rule order and is not listed in known_findings.json: " + first[0][:300]
        m = re.match(r"at \[([^\]]*)\]", first[0])
        path = os.path.join(rdir, "C16-bv-same-region-merge.json")
        json.dump({"kind": "bv", "property": "C16", "layout": json.loads(first[1]), "point": [float(x) for x in m.group(1).split(",")] if m else [],
                   "what": first[0], "replay_cmd": "bin/vk replay " + path}, open(path, "w"))
        rec["replay"] = {"path": path, "labels": [KNOWN_LABEL]}
    elif d["n_inconclusive"]:
        rec["status"] = "inconclusive"
        rec["note"] = "%d inconclusive; first: %s" % (d["n_inconclusive"], d["inconclusive"][0][:300])
    else:
        rec["status"] = "proved"
        cut = " (time budget cut the enumeration at %d of %d layouts)" % (d["layouts_enumerated"], d["layouts_total"]) if d["cut_short_by_budget"] else ""
        rec["note"] = "%d layouts, %d queries, z3 and cvc5 agree%s; %d layouts deviate exactly as the known finding says" % (d["layouts_enumerated"], d["queries"], cut, d["n_known"])
        if d["n_known"]:
            rec["known"] = kf[0]
            rec["known_witness"] = d["known"][0][:700]
    return [rec]


def replay_file(d):
    if build() != 0:
        print("boxval does not build")
        return 2
    return subprocess.run([BIN, "replay", d["path_self"]], env=_env()).returncode
