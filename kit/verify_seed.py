#!/usr/bin/env python3
"""Independently confirm a seeded change in its scratch worktree:
  (1) the workspace builds and the existing suite gives the baseline result (1106 passed, the same 3 failures),
  (2) the demonstration fails with the change, (3) and passes without it.
usage: verify_seed.py <ID-n> ...   (table below says how each demo is applied and run)
Writes /verif/seeded/<ID-n>/verify.json."""
import json
import os
import re
import subprocess
import sys

T = {
    # id: (worktree, demo-apply shell command (cwd=worktree), [test commands])
    "C07-1": ("C07", "git apply out/1/demo.patch", ["cargo test -p fontdrasil --offline --lib seeded_c07_1"]),
    "C07-2": ("C07", "git apply out/2/demo.patch", ["cargo test -p fontdrasil --offline --lib seeded_c07_2"]),
    "C08-1": ("C08", "git apply out/1/demo.patch", ["cargo test -p fontdrasil --offline --lib c08", "cargo test -p fontbe --offline --lib c08"]),
    "C08-2": ("C08", "git apply out/2/demo.patch", ["cargo test -p fontbe --offline --lib c08"]),
    "C10-1": ("C10", "python3 out/insert_demo.py out/1/demo.rs fontbe/src/features/marks.rs", ["cargo test -p fontbe --offline --lib variable_anchor_that_only_moves_vertically"]),
    "C10-2": ("C10", "python3 out/insert_demo.py out/2/demo.rs fontir/src/propagate_anchors.rs", ["cargo test -p fontir --offline --lib component_flipped_on_one_axis_only"]),
    "C13-1": ("C13", "mkdir -p fea-rs/tests && cp out/1/demo.rs fea-rs/tests/c13_demo_include_cycle.rs", ["cargo test -p fea-rs --offline --test c13_demo_include_cycle"]),
    "C13-2": ("C13", "mkdir -p fea-rs/tests && cp out/2/demo.rs fea-rs/tests/c13_demo_anon_label.rs", ["cargo test -p fea-rs --offline --test c13_demo_anon_label"]),
    "C16-1": ("C16", "sh out/apply_demo.sh out/1/demo.rs", ["cargo test -p fontir --offline --lib seeded_"]),
    "C16-2": ("C16", "sh out/apply_demo.sh out/2/demo.rs", ["cargo test -p fontir --offline --lib seeded_"]),
    "C17-1": ("C17", "git apply out/1/demo_e2e.patch", ["cargo test -p fontc --offline --lib bbox_of_triply_nested_offset_components"]),
    "C17-2": ("C17", "git apply out/2/demo.patch", ["cargo test -p fontc --offline --lib avg_char_width_ignores_trailing_zero_width_glyphs"]),
    "C07b-1": ("C07b", "python3 /verif/kit/insert_demo.py out/1/demo.rs fontdrasil/src/variations.rs", ["cargo test -p fontdrasil --offline --lib c07_demo1"]),
    "C07b-2": ("C07b", "python3 /verif/kit/insert_demo.py out/2/demo.rs fontdrasil/src/variations.rs", ["cargo test -p fontdrasil --offline --lib c07_demo2"]),
    "C10b-1": ("C10b", "python3 /verif/kit/insert_demo.py out/1/demo.rs fontbe/src/features/marks.rs", ["cargo test -p fontbe --offline --lib abvm_covers_anchors_not_named_top_or_bottom"]),
    "C10b-2": ("C10b", "python3 /verif/kit/insert_demo.py out/2/demo.rs fontir/src/propagate_anchors.rs", ["cargo test -p fontir --offline --lib single_axis_flip_renames_only_that_axis"]),
    "C08b-1": ("C08b", "python3 /verif/kit/insert_demo.py out/1/demo.rs fontbe/src/avar.rs", ["cargo test -p fontbe --offline --lib demo_flat_segment"]),
    "C08b-2": ("C08b", "python3 /verif/kit/insert_demo.py out/2/demo.rs fontbe/src/fvar.rs", ["cargo test -p fontbe --offline --lib demo_sparse_named_instance_stays_within_axis_ranges"]),
    "C04-1": ("C04", "python3 /verif/kit/insert_demo.py out/1/demo.rs fontbe/src/mvar.rs", ["cargo test -p fontbe --offline --lib c04_demo"]),
    "C04-2": ("C04", "python3 /verif/kit/insert_demo.py out/2/demo.rs fontbe/src/metric_variations.rs --append", ["cargo test -p fontbe --offline --lib c04_demo"]),
    "C02-1": ("C02", "git apply out/1/demo.patch", ["cargo test -p fontc --offline --lib gather_be_kerning_is_ordered_after_every_kern_fragment", "cargo test -p fontc --offline --lib compiles_when_kern_fragments_run_first"]),
    "C02-2": ("C02", "git apply out/2/demo.patch", ["cargo test -p fontc --offline --lib gather_ir_kerning_cannot_start_before_kern_instances_are_spawned"]),
    "C03-1": ("C03", "git apply out/1/demo.patch", ["cargo test -p fontc --offline --lib composite_with_y_stretched_component_matches_master"]),
    "C03-2": ("C03", "git apply out/2/demo.patch", ["cargo test -p fontdrasil --offline --lib every_master_is_reproduced_on_a_2x3_grid", "cargo test -p fontc --offline --lib outline_at_every_master_of_2x3_grid"]),
    "C19-1": ("C19", "git apply out/1/demo.patch", ["cargo test -p fontc --offline --lib c19_demo"]),
    "C19-2": ("C19", "git apply out/2/demo.patch", ["cargo test -p fontc --offline --lib c19_demo", "cargo test -p fontc --offline --lib --release c19_demo"]),
}


def sh(cmd, cwd):
    p = subprocess.run(cmd, shell=True, cwd=cwd, stdout=subprocess.PIPE, stderr=subprocess.STDOUT, text=True, env=dict(os.environ, CARGO_NET_OFFLINE="true"))
    return p.returncode, p.stdout


def tests_summary(out):
    res = re.findall(r"test result: (\w+)\. (\d+) passed; (\d+) failed", out)
    ran = sum(int(a) + int(b) for _, a, b in res)
    failed = sum(int(b) for _, _, b in res)
    return ran, failed


def main():
    for mid in sys.argv[1:]:
        n = mid.split("-")[-1]
        if mid in T:
            wt, demo_cmd, tests = T[mid]
            w = f"/tmp/mut/{wt}"
        else:
            # third round: uniform layout /tmp/wt-<Cxxb>/out/<n>/{patch.diff, demo.patch, demo_cmd.txt}
            w = "/tmp/wt-" + mid.rsplit("-", 1)[0]
            demo_cmd = f"git apply out/{n}/demo.patch"
            tests = [l.strip() for l in open(f"{w}/out/{n}/demo_cmd.txt") if l.strip() and not l.startswith("#")]
            tests = [re.sub(r"^(cd \S+ && )?(CARGO_NET_OFFLINE=true )?", "", t) for t in tests]
        rec = {"id": mid, "worktree": w}
        sh("git checkout -- . && git clean -fdq -e out -e target", w)
        rc, out = sh(f"git apply out/{n}/patch.diff", w)
        rec["patch_applies"] = rc == 0
        rc, out = sh("cargo nextest run --workspace --no-fail-fast --offline --test-threads 8 2>&1 | tail -15", w)
        m = re.search(r"(\d+) tests run: (\d+) passed(?: \([^)]*\))?, (\d+) failed", out)
        fails = sorted(set(re.findall(r"FAIL \[[^\]]*\] \(?[^)]*\)?\s*(\S+ \S+)", out)))
        rec["suite_with_change"] = {"run": int(m.group(1)), "passed": int(m.group(2)), "failed": int(m.group(3)), "failing": fails} if m else {"error": out[-400:]}
        rec["suite_is_baseline"] = bool(m) and int(m.group(2)) == 1106 and int(m.group(3)) == 3
        rc, out = sh(demo_cmd, w)
        rec["demo_applied"] = rc == 0
        with_change = []
        for t in tests:
            rc, out = sh(t + " 2>&1 | tail -40", w)
            ran, failed = tests_summary(out)
            with_change.append({"cmd": t, "ran": ran, "failed": failed})
        rec["demo_with_change"] = with_change
        rc, out = sh(f"git apply -R out/{n}/patch.diff", w)
        rec["patch_reverted"] = rc == 0
        without = []
        for t in tests:
            rc, out = sh(t + " 2>&1 | tail -40", w)
            ran, failed = tests_summary(out)
            without.append({"cmd": t, "ran": ran, "failed": failed})
        rec["demo_without_change"] = without
        rec["confirmed"] = bool(rec["suite_is_baseline"] and rec["demo_applied"] and any(x["failed"] > 0 for x in with_change)
                                and all(x["failed"] == 0 for x in without) and any(x["ran"] > 0 for x in without))
        sh("git checkout -- . && git clean -fdq -e out -e target", w)
        os.makedirs(f"/verif/seeded/{mid}", exist_ok=True)
        json.dump(rec, open(f"/verif/seeded/{mid}/verify.json", "w"), indent=1)
        print(mid, "confirmed" if rec["confirmed"] else "NOT CONFIRMED", json.dumps({k: rec[k] for k in ("suite_is_baseline", "demo_with_change", "demo_without_change")}), flush=True)


if __name__ == "__main__":
    main()
