//! Support crate for the solver-based checks of googlefonts/fontc.
//!
//! * `shim` — array-backed stand-ins for the std / indexmap containers and a
//!   stable insertion sort (`VSort`). Under `cfg(kani)` they are re-exported
//!   at the crate root, which is where the overlay's rewritten imports point
//!   (T1/T2 in DESIGN.md). Natively they are only compiled for the
//!   differential self-test.
//! * `vk` — the single door through which harnesses draw symbolic inputs:
//!   `kani::any()` under Kani, recorded bytes under native replay.
#![allow(clippy::all)]
#![allow(dead_code)]

#[path = "containers.rs"]
pub mod shim;

#[cfg(any(kani, vk_shim_native))]
pub use shim::*;

pub mod vk;

#[cfg(test)]
mod selftest;
