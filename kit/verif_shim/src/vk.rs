//! input abstraction: `kani::any` under Kani, recorded bytes under native replay.
//!
//! Every harness input is drawn through one of the `any_*` functions below,
//! each of which is exactly one primitive `kani::any()` call, so that the
//! byte vectors printed by `--concrete-playback=print` (one per call, in call
//! order) can be fed back natively.

#[cfg(kani)]
mod imp {
    #[inline(never)] pub fn any_f64() -> f64 { kani::any() }
    #[inline(never)] pub fn any_u8() -> u8 { kani::any() }
    #[inline(never)] pub fn any_i8() -> i8 { kani::any() }
    #[inline(never)] pub fn any_u16() -> u16 { kani::any() }
    #[inline(never)] pub fn any_i16() -> i16 { kani::any() }
    #[inline(never)] pub fn any_u32() -> u32 { kani::any() }
    #[inline(never)] pub fn any_i32() -> i32 { kani::any() }
    #[inline(never)] pub fn any_u64() -> u64 { kani::any() }
    #[inline(never)] pub fn any_i64() -> i64 { kani::any() }
    #[inline(never)] pub fn any_bool() -> bool { kani::any() }
    #[inline(always)] pub fn assume(c: bool) { kani::assume(c) }
    pub fn load_from_env() {}
}

#[cfg(not(kani))]
mod imp {
    use std::cell::RefCell;
    use std::collections::VecDeque;
    thread_local! { static VALS: RefCell<VecDeque<Vec<u8>>> = RefCell::new(VecDeque::new()); }
    /// VK_REPLAY="0,0,0,0,16,0,235,192;255,255,..." (one byte vector per any() call)
    pub fn load_from_env() {
        let s = std::env::var("VK_REPLAY").expect("VK_REPLAY");
        load(&s);
    }
    pub fn load(s: &str) {
        VALS.with(|v| {
            let mut v = v.borrow_mut();
            v.clear();
            for part in s.split(';').filter(|p| !p.trim().is_empty()) {
                v.push_back(part.split(',').map(|b| b.trim().parse::<u8>().unwrap()).collect());
            }
        });
    }
    fn pop(n: usize) -> Vec<u8> {
        VALS.with(|v| {
            let b = v.borrow_mut().pop_front().expect("VK_REPLAY_EXHAUSTED");
            assert_eq!(b.len(), n, "VK_REPLAY_WIDTH");
            b
        })
    }
    pub fn any_f64() -> f64 { f64::from_le_bytes(pop(8).try_into().unwrap()) }
    pub fn any_u8() -> u8 { pop(1)[0] }
    pub fn any_i8() -> i8 { pop(1)[0] as i8 }
    pub fn any_u16() -> u16 { u16::from_le_bytes(pop(2).try_into().unwrap()) }
    pub fn any_i16() -> i16 { i16::from_le_bytes(pop(2).try_into().unwrap()) }
    pub fn any_u32() -> u32 { u32::from_le_bytes(pop(4).try_into().unwrap()) }
    pub fn any_i32() -> i32 { i32::from_le_bytes(pop(4).try_into().unwrap()) }
    pub fn any_u64() -> u64 { u64::from_le_bytes(pop(8).try_into().unwrap()) }
    pub fn any_i64() -> i64 { i64::from_le_bytes(pop(8).try_into().unwrap()) }
    pub fn any_bool() -> bool { pop(1)[0] & 1 == 1 }
    /// a violated assumption during replay means the recorded values do not
    /// belong to the harness: the replay is void (not a reproduction).
    pub fn assume(c: bool) { if !c { panic!("VK_ASSUME_VIOLATED") } }
}
pub use imp::*;

/// symbolic integer in lo..=hi
pub fn any_i8_in(lo: i8, hi: i8) -> i8 { let k = any_i8(); assume(k >= lo && k <= hi); k }
pub fn any_u8_in(lo: u8, hi: u8) -> u8 { let k = any_u8(); assume(k >= lo && k <= hi); k }
/// k/den for a symbolic integer k in lo..=hi (the "grid" of DESIGN.md §2.2)
pub fn grid(lo: i8, hi: i8, den: f64) -> f64 { any_i8_in(lo, hi) as f64 / den }
/// a finite f64 with |x| < bound
pub fn finite_f64(bound: f64) -> f64 { let x = any_f64(); assume(x.is_finite() && x.abs() < bound); x }

/// stand-in for `alloc::fmt::format` in harnesses that stub formatting away (T3)
pub fn fmt_stub(_args: std::fmt::Arguments<'_>) -> String { String::new() }

/// reachability witness: under Kani a `kani::cover!`, natively nothing.
#[macro_export]
macro_rules! vk_cover {
    ($cond:expr, $label:expr) => {{
        #[cfg(kani)]
        kani::cover!($cond, $label);
        #[cfg(not(kani))]
        { let _ = &$cond; }
    }};
}
