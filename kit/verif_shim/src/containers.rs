//! Array-backed stand-ins (capacity CAP) for std containers, used only under Kani.
use std::borrow::Borrow;
use std::fmt::Debug;

#[cfg(feature = "cap8")]
pub const CAP: usize = 8;
#[cfg(all(feature = "cap6", not(feature = "cap8")))]
pub const CAP: usize = 6;
#[cfg(all(feature = "cap3", not(any(feature = "cap6", feature = "cap8"))))]
pub const CAP: usize = 3;
#[cfg(all(feature = "cap2", not(any(feature = "cap3", feature = "cap6", feature = "cap8"))))]
pub const CAP: usize = 2;
#[cfg(not(any(feature = "cap2", feature = "cap3", feature = "cap6", feature = "cap8")))]
pub const CAP: usize = 4;

fn empty<T>() -> [Option<T>; CAP] { std::array::from_fn(|_| None) }

pub type SlotIter<'a, T> = std::iter::Flatten<std::slice::Iter<'a, Option<T>>>;
pub type PairIter<'a, K, V> = std::iter::Map<SlotIter<'a, (K, V)>, fn(&'a (K, V)) -> (&'a K, &'a V)>;
pub type KeyIter<'a, K, V> = std::iter::Map<SlotIter<'a, (K, V)>, fn(&'a (K, V)) -> &'a K>;
pub type ValIter<'a, K, V> = std::iter::Map<SlotIter<'a, (K, V)>, fn(&'a (K, V)) -> &'a V>;
fn pair_ref<K, V>(e: &(K, V)) -> (&K, &V) { (&e.0, &e.1) }
fn key_ref<K, V>(e: &(K, V)) -> &K { &e.0 }
fn val_ref<K, V>(e: &(K, V)) -> &V { &e.1 }

// ------------------------------------------------------------ generic slot store
#[derive(Clone, PartialEq, Eq, PartialOrd, Ord, Hash)]
pub struct Slots<T> { items: [Option<T>; CAP], len: usize }
impl<T> Default for Slots<T> { fn default() -> Self { Slots { items: empty(), len: 0 } } }
impl<T> Slots<T> {
    pub fn len(&self) -> usize { self.len }
    pub fn push(&mut self, t: T) {
        assert!(self.len < CAP, "verif_shim capacity exceeded");
        self.items[self.len] = Some(t);
        self.len += 1;
    }
    /// insert at i, shifting up (element-wise, no memmove)
    pub fn insert_at(&mut self, i: usize, t: T) {
        self.push(t);
        let mut j = self.len - 1;
        while j > i { self.items.swap(j, j - 1); j -= 1; }
    }
    pub fn remove_at(&mut self, i: usize) -> T {
        let out = self.items[i].take().unwrap();
        let mut j = i;
        while j + 1 < self.len { self.items.swap(j, j + 1); j += 1; }
        self.len -= 1;
        out
    }
    pub fn get(&self, i: usize) -> &T { self.items[i].as_ref().unwrap() }
    pub fn get_mut(&mut self, i: usize) -> &mut T { self.items[i].as_mut().unwrap() }
    pub fn iter(&self) -> SlotIter<'_, T> { self.items.iter().flatten() }
    pub fn iter_mut(&mut self) -> impl Iterator<Item = &mut T> + '_ { self.items.iter_mut().filter_map(|x| x.as_mut()) }
    pub fn into_iter(self) -> impl Iterator<Item = T> { self.items.into_iter().flatten() }
    pub fn clear(&mut self) { let mut i = 0; while i < CAP { self.items[i] = None; i += 1; } self.len = 0; }
    pub fn retain<F: FnMut(&mut T) -> bool>(&mut self, mut f: F) {
        let mut i = 0;
        while i < self.len {
            if f(self.items[i].as_mut().unwrap()) { i += 1; } else { self.remove_at(i); }
        }
    }
}

// ------------------------------------------------------------ BTreeMap (sorted)
#[derive(Clone, PartialEq, Eq, PartialOrd, Ord, Hash)]
pub struct BTreeMap<K, V> { s: Slots<(K, V)> }
impl<K, V> Default for BTreeMap<K, V> { fn default() -> Self { BTreeMap { s: Slots::default() } } }
impl<K, V> Debug for BTreeMap<K, V> { fn fmt(&self, _f: &mut std::fmt::Formatter<'_>) -> std::fmt::Result { Ok(()) } }
impl<K: Ord, V> BTreeMap<K, V> {
    pub fn new() -> Self { Self::default() }
    pub fn len(&self) -> usize { self.s.len() }
    pub fn is_empty(&self) -> bool { self.s.len() == 0 }
    fn search<Q: ?Sized + Ord>(&self, k: &Q) -> Result<usize, usize> where K: Borrow<Q> {
        let mut i = 0;
        while i < self.s.len() {
            match self.s.get(i).0.borrow().cmp(k) {
                std::cmp::Ordering::Less => i += 1,
                std::cmp::Ordering::Equal => return Ok(i),
                std::cmp::Ordering::Greater => return Err(i),
            }
        }
        Err(i)
    }
    pub fn insert(&mut self, k: K, v: V) -> Option<V> {
        match self.search(&k) {
            Ok(i) => Some(std::mem::replace(&mut self.s.get_mut(i).1, v)),
            Err(i) => { self.s.insert_at(i, (k, v)); None }
        }
    }
    pub fn get<Q: ?Sized + Ord>(&self, k: &Q) -> Option<&V> where K: Borrow<Q> {
        match self.search(k) { Ok(i) => Some(&self.s.get(i).1), Err(_) => None }
    }
    pub fn contains_key<Q: ?Sized + Ord>(&self, k: &Q) -> bool where K: Borrow<Q> { self.search(k).is_ok() }
    pub fn remove<Q: ?Sized + Ord>(&mut self, k: &Q) -> Option<V> where K: Borrow<Q> {
        match self.search(k) { Ok(i) => Some(self.s.remove_at(i).1), Err(_) => None }
    }
    pub fn iter(&self) -> PairIter<'_, K, V> { self.s.iter().map(pair_ref as fn(&(K, V)) -> (&K, &V)) }
    pub fn keys(&self) -> KeyIter<'_, K, V> { self.s.iter().map(key_ref as fn(&(K, V)) -> &K) }
    pub fn values(&self) -> ValIter<'_, K, V> { self.s.iter().map(val_ref as fn(&(K, V)) -> &V) }
    pub fn retain<F: FnMut(&K, &mut V) -> bool>(&mut self, mut f: F) { self.s.retain(|(k, v)| f(k, v)) }
}
impl<K: Ord, V> FromIterator<(K, V)> for BTreeMap<K, V> {
    fn from_iter<I: IntoIterator<Item = (K, V)>>(it: I) -> Self { let mut m = Self::default(); for (k, v) in it { m.insert(k, v); } m }
}
impl<K: Ord, V> Extend<(K, V)> for BTreeMap<K, V> {
    fn extend<I: IntoIterator<Item = (K, V)>>(&mut self, it: I) { for (k, v) in it { self.insert(k, v); } }
}
impl<K, V> IntoIterator for BTreeMap<K, V> {
    type Item = (K, V); type IntoIter = std::iter::Flatten<std::array::IntoIter<Option<(K, V)>, CAP>>;
    fn into_iter(self) -> Self::IntoIter { self.s.items.into_iter().flatten() }
}
impl<K, V> serde::Serialize for BTreeMap<K, V> { fn serialize<S: serde::Serializer>(&self, _s: S) -> Result<S::Ok, S::Error> { unimplemented!() } }
impl<'de, K, V> serde::Deserialize<'de> for BTreeMap<K, V> { fn deserialize<D: serde::Deserializer<'de>>(_d: D) -> Result<Self, D::Error> { unimplemented!() } }

// ------------------------------------------------------------ HashSet (unordered, insertion order)
#[derive(Clone)]
pub struct HashSet<T> { s: Slots<T> }
impl<T> Default for HashSet<T> { fn default() -> Self { HashSet { s: Slots::default() } } }
impl<T> Debug for HashSet<T> { fn fmt(&self, _f: &mut std::fmt::Formatter<'_>) -> std::fmt::Result { Ok(()) } }
impl<T: Eq> HashSet<T> {
    pub fn new() -> Self { Self::default() }
    pub fn len(&self) -> usize { self.s.len() }
    pub fn is_empty(&self) -> bool { self.s.len() == 0 }
    fn pos<Q: ?Sized + Eq>(&self, k: &Q) -> Option<usize> where T: Borrow<Q> {
        let mut i = 0;
        while i < self.s.len() { if self.s.get(i).borrow() == k { return Some(i); } i += 1; }
        None
    }
    pub fn insert(&mut self, t: T) -> bool { if self.pos(&t).is_some() { false } else { self.s.push(t); true } }
    pub fn contains<Q: ?Sized + Eq>(&self, k: &Q) -> bool where T: Borrow<Q> { self.pos(k).is_some() }
    pub fn iter(&self) -> SlotIter<'_, T> { self.s.iter() }
}
impl<T: Eq> PartialEq for HashSet<T> { fn eq(&self, o: &Self) -> bool { self.len() == o.len() && self.s.iter().all(|t| o.contains(t)) } }
impl<T: Eq> Eq for HashSet<T> {}
impl<T: Eq> FromIterator<T> for HashSet<T> {
    fn from_iter<I: IntoIterator<Item = T>>(it: I) -> Self { let mut s = Self::default(); for t in it { s.insert(t); } s }
}
impl<T> IntoIterator for HashSet<T> {
    type Item = T; type IntoIter = std::iter::Flatten<std::array::IntoIter<Option<T>, CAP>>;
    fn into_iter(self) -> Self::IntoIter { self.s.items.into_iter().flatten() }
}

// ------------------------------------------------------------ IndexMap
pub mod indexmap {
    use super::*;
    #[derive(Clone)]
    pub struct IndexMap<K, V> { s: Slots<(K, V)> }
    impl<K, V> Default for IndexMap<K, V> { fn default() -> Self { IndexMap { s: Slots::default() } } }
    pub mod map {
        use super::super::Slots;
        pub enum Entry<'a, K, V> { Occupied(OccupiedEntry<'a, V>), Vacant(VacantEntry<'a, K, V>) }
        pub struct OccupiedEntry<'a, V> { pub(crate) r: &'a mut V }
        pub struct VacantEntry<'a, K, V> { pub(crate) s: &'a mut Slots<(K, V)>, pub(crate) k: K }
        impl<'a, V> OccupiedEntry<'a, V> { pub fn get_mut(&mut self) -> &mut V { self.r } }
        impl<'a, K, V> VacantEntry<'a, K, V> {
            pub fn insert(self, v: V) -> &'a mut V { self.s.push((self.k, v)); let n = self.s.len() - 1; &mut self.s.get_mut(n).1 }
        }
        impl<'a, K, V> Entry<'a, K, V> {
            pub fn or_insert_with<F: FnOnce() -> V>(self, f: F) -> &'a mut V { match self { Entry::Occupied(o) => o.r, Entry::Vacant(v) => v.insert(f()) } }
            pub fn or_default(self) -> &'a mut V where V: Default { self.or_insert_with(V::default) }
        }
    }
    impl<K: Eq, V> IndexMap<K, V> {
        pub fn new() -> Self { Self::default() }
        fn pos(&self, k: &K) -> Option<usize> {
            let mut i = 0;
            while i < self.s.len() { if &self.s.get(i).0 == k { return Some(i); } i += 1; }
            None
        }
        pub fn insert(&mut self, k: K, v: V) -> Option<V> {
            match self.pos(&k) { Some(i) => Some(std::mem::replace(&mut self.s.get_mut(i).1, v)), None => { self.s.push((k, v)); None } }
        }
        pub fn entry(&mut self, k: K) -> map::Entry<'_, K, V> {
            match self.pos(&k) {
                Some(i) => map::Entry::Occupied(map::OccupiedEntry { r: &mut self.s.get_mut(i).1 }),
                None => map::Entry::Vacant(map::VacantEntry { s: &mut self.s, k }),
            }
        }
    }
    impl<K: Eq, V, const N: usize> From<[(K, V); N]> for IndexMap<K, V> {
        fn from(a: [(K, V); N]) -> Self { let mut m = Self::default(); for (k, v) in a { m.insert(k, v); } m }
    }
    impl<K, V> IntoIterator for IndexMap<K, V> {
        type Item = (K, V); type IntoIter = std::iter::Flatten<std::array::IntoIter<Option<(K, V)>, CAP>>;
        fn into_iter(self) -> Self::IntoIter { self.s.items.into_iter().flatten() }
    }
}


// ------------------------------------------------------------ HashMap (unordered; insertion order)
#[derive(Clone)]
pub struct HashMap<K, V> { s: Slots<(K, V)> }
impl<K, V> Default for HashMap<K, V> { fn default() -> Self { HashMap { s: Slots::default() } } }
impl<K, V> Debug for HashMap<K, V> { fn fmt(&self, _f: &mut std::fmt::Formatter<'_>) -> std::fmt::Result { Ok(()) } }
pub mod hash_map {
    use super::Slots;
    pub use std::collections::hash_map::{DefaultHasher, RandomState};
    pub enum Entry<'a, K, V> { Occupied(OccupiedEntry<'a, K, V>), Vacant(VacantEntry<'a, K, V>) }
    pub struct OccupiedEntry<'a, K, V> { pub(crate) s: &'a mut Slots<(K, V)>, pub(crate) i: usize }
    pub struct VacantEntry<'a, K, V> { pub(crate) s: &'a mut Slots<(K, V)>, pub(crate) k: K }
    impl<'a, K, V> OccupiedEntry<'a, K, V> {
        pub fn get(&self) -> &V { &self.s.get(self.i).1 }
        pub fn get_mut(&mut self) -> &mut V { &mut self.s.get_mut(self.i).1 }
        pub fn into_mut(self) -> &'a mut V { &mut self.s.get_mut(self.i).1 }
        pub fn key(&self) -> &K { &self.s.get(self.i).0 }
        pub fn insert(&mut self, v: V) -> V { std::mem::replace(&mut self.s.get_mut(self.i).1, v) }
        pub fn remove(self) -> V { self.s.remove_at(self.i).1 }
    }
    impl<'a, K, V> VacantEntry<'a, K, V> {
        pub fn key(&self) -> &K { &self.k }
        pub fn insert(self, v: V) -> &'a mut V { self.s.push((self.k, v)); let n = self.s.len() - 1; &mut self.s.get_mut(n).1 }
    }
    impl<'a, K, V> Entry<'a, K, V> {
        pub fn or_insert_with<F: FnOnce() -> V>(self, f: F) -> &'a mut V { match self { Entry::Occupied(o) => o.into_mut(), Entry::Vacant(v) => v.insert(f()) } }
        pub fn or_insert(self, v: V) -> &'a mut V { self.or_insert_with(|| v) }
        pub fn or_default(self) -> &'a mut V where V: Default { self.or_insert_with(V::default) }
        pub fn and_modify<F: FnOnce(&mut V)>(mut self, f: F) -> Self { if let Entry::Occupied(o) = &mut self { f(o.get_mut()); } self }
        pub fn key(&self) -> &K { match self { Entry::Occupied(o) => o.key(), Entry::Vacant(v) => v.key() } }
    }
}
impl<K: Eq, V> HashMap<K, V> {
    pub fn new() -> Self { Self::default() }
    pub fn with_capacity(_n: usize) -> Self { Self::default() }
    pub fn len(&self) -> usize { self.s.len() }
    pub fn is_empty(&self) -> bool { self.s.len() == 0 }
    pub fn clear(&mut self) { self.s.clear() }
    fn pos<Q: ?Sized + Eq>(&self, k: &Q) -> Option<usize> where K: Borrow<Q> {
        let mut i = 0;
        while i < self.s.len() { if self.s.get(i).0.borrow() == k { return Some(i); } i += 1; }
        None
    }
    pub fn insert(&mut self, k: K, v: V) -> Option<V> {
        match self.pos(&k) { Some(i) => Some(std::mem::replace(&mut self.s.get_mut(i).1, v)), None => { self.s.push((k, v)); None } }
    }
    pub fn get<Q: ?Sized + Eq>(&self, k: &Q) -> Option<&V> where K: Borrow<Q> { self.pos(k).map(|i| &self.s.get(i).1) }
    pub fn get_mut<Q: ?Sized + Eq>(&mut self, k: &Q) -> Option<&mut V> where K: Borrow<Q> {
        match self.pos(k) { Some(i) => Some(&mut self.s.get_mut(i).1), None => None }
    }
    pub fn contains_key<Q: ?Sized + Eq>(&self, k: &Q) -> bool where K: Borrow<Q> { self.pos(k).is_some() }
    pub fn remove<Q: ?Sized + Eq>(&mut self, k: &Q) -> Option<V> where K: Borrow<Q> { self.pos(k).map(|i| self.s.remove_at(i).1) }
    pub fn entry(&mut self, k: K) -> hash_map::Entry<'_, K, V> {
        match self.pos(&k) {
            Some(i) => hash_map::Entry::Occupied(hash_map::OccupiedEntry { s: &mut self.s, i }),
            None => hash_map::Entry::Vacant(hash_map::VacantEntry { s: &mut self.s, k }),
        }
    }
    pub fn iter(&self) -> PairIter<'_, K, V> { self.s.iter().map(pair_ref as fn(&(K, V)) -> (&K, &V)) }
    pub fn keys(&self) -> KeyIter<'_, K, V> { self.s.iter().map(key_ref as fn(&(K, V)) -> &K) }
    pub fn values(&self) -> ValIter<'_, K, V> { self.s.iter().map(val_ref as fn(&(K, V)) -> &V) }
    pub fn values_mut(&mut self) -> impl Iterator<Item = &mut V> + '_ { self.s.iter_mut().map(|(_, v)| v) }
    pub fn retain<F: FnMut(&K, &mut V) -> bool>(&mut self, mut f: F) { self.s.retain(|(k, v)| f(k, v)) }
}
impl<K: Eq, V: PartialEq> PartialEq for HashMap<K, V> {
    fn eq(&self, o: &Self) -> bool { self.len() == o.len() && self.s.iter().all(|(k, v)| o.get(k) == Some(v)) }
}
impl<K: Eq, V: Eq> Eq for HashMap<K, V> {}
impl<K: Eq, V> FromIterator<(K, V)> for HashMap<K, V> {
    fn from_iter<I: IntoIterator<Item = (K, V)>>(it: I) -> Self { let mut m = Self::default(); for (k, v) in it { m.insert(k, v); } m }
}
impl<K: Eq, V> Extend<(K, V)> for HashMap<K, V> {
    fn extend<I: IntoIterator<Item = (K, V)>>(&mut self, it: I) { for (k, v) in it { self.insert(k, v); } }
}
impl<K: Eq, V, const N: usize> From<[(K, V); N]> for HashMap<K, V> { fn from(a: [(K, V); N]) -> Self { a.into_iter().collect() } }
impl<K, V> IntoIterator for HashMap<K, V> {
    type Item = (K, V); type IntoIter = std::iter::Flatten<std::array::IntoIter<Option<(K, V)>, CAP>>;
    fn into_iter(self) -> Self::IntoIter { self.s.items.into_iter().flatten() }
}
impl<'a, K, V> IntoIterator for &'a HashMap<K, V> {
    type Item = (&'a K, &'a V);
    type IntoIter = std::iter::Map<std::iter::Flatten<std::slice::Iter<'a, Option<(K, V)>>>, fn(&'a (K, V)) -> (&'a K, &'a V)>;
    fn into_iter(self) -> Self::IntoIter { self.s.items.iter().flatten().map(|(k, v)| (k, v)) }
}
impl<K, V> serde::Serialize for HashMap<K, V> { fn serialize<S: serde::Serializer>(&self, _s: S) -> Result<S::Ok, S::Error> { unimplemented!() } }
impl<'de, K, V> serde::Deserialize<'de> for HashMap<K, V> { fn deserialize<D: serde::Deserializer<'de>>(_d: D) -> Result<Self, D::Error> { unimplemented!() } }
impl<T> serde::Serialize for HashSet<T> { fn serialize<S: serde::Serializer>(&self, _s: S) -> Result<S::Ok, S::Error> { unimplemented!() } }
impl<'de, T> serde::Deserialize<'de> for HashSet<T> { fn deserialize<D: serde::Deserializer<'de>>(_d: D) -> Result<Self, D::Error> { unimplemented!() } }
impl<T: Eq, const N: usize> From<[T; N]> for HashSet<T> { fn from(a: [T; N]) -> Self { a.into_iter().collect() } }
impl<'a, T> IntoIterator for &'a HashSet<T> {
    type Item = &'a T; type IntoIter = std::iter::Flatten<std::slice::Iter<'a, Option<T>>>;
    fn into_iter(self) -> Self::IntoIter { self.s.items.iter().flatten() }
}
impl<T: Eq> HashSet<T> {
    pub fn retain<F: FnMut(&T) -> bool>(&mut self, mut f: F) { self.s.retain(|t| f(t)) }
    pub fn remove<Q: ?Sized + Eq>(&mut self, k: &Q) -> bool where T: Borrow<Q> { match self.pos(k) { Some(i) => { self.s.remove_at(i); true } None => false } }
    pub fn get<Q: ?Sized + Eq>(&self, k: &Q) -> Option<&T> where T: Borrow<Q> { self.pos(k).map(|i| self.s.get(i)) }
}
impl<T: Eq> Extend<T> for HashSet<T> {
    fn extend<I: IntoIterator<Item = T>>(&mut self, it: I) { for t in it { self.insert(t); } }
}
impl<K: Ord, V, const N: usize> From<[(K, V); N]> for BTreeMap<K, V> { fn from(a: [(K, V); N]) -> Self { a.into_iter().collect() } }
impl<K: Ord + Borrow<Q>, Q: ?Sized + Ord, V> std::ops::Index<&Q> for BTreeMap<K, V> {
    type Output = V;
    fn index(&self, k: &Q) -> &V { self.get(k).expect("no entry found for key") }
}
impl<'a, K, V> IntoIterator for &'a BTreeMap<K, V> {
    type Item = (&'a K, &'a V);
    type IntoIter = std::iter::Map<std::iter::Flatten<std::slice::Iter<'a, Option<(K, V)>>>, fn(&'a (K, V)) -> (&'a K, &'a V)>;
    fn into_iter(self) -> Self::IntoIter { self.s.items.iter().flatten().map(|(k, v)| (k, v)) }
}

// ------------------------------------------------------------ simple stable insertion sort
pub trait VSort<T> {
    fn vsort(&mut self) where T: Ord;
    fn vsort_by_key<K: Ord, F: FnMut(&T) -> K>(&mut self, f: F);
    fn vsort_by<F: FnMut(&T, &T) -> std::cmp::Ordering>(&mut self, f: F);
}
impl<T> VSort<T> for [T] {
    fn vsort(&mut self) where T: Ord {
        let n = self.len();
        let mut i = 1;
        while i < n {
            let mut j = i;
            while j > 0 && self[j] < self[j - 1] { self.swap(j, j - 1); j -= 1; }
            i += 1;
        }
    }
    fn vsort_by_key<K: Ord, F: FnMut(&T) -> K>(&mut self, mut f: F) {
        let n = self.len();
        let mut i = 1;
        while i < n {
            let mut j = i;
            while j > 0 && f(&self[j]) < f(&self[j - 1]) { self.swap(j, j - 1); j -= 1; }
            i += 1;
        }
    }
    fn vsort_by<F: FnMut(&T, &T) -> std::cmp::Ordering>(&mut self, mut f: F) {
        let n = self.len();
        let mut i = 1;
        while i < n {
            let mut j = i;
            while j > 0 && f(&self[j], &self[j - 1]) == std::cmp::Ordering::Less { self.swap(j, j - 1); j -= 1; }
            i += 1;
        }
    }
}
impl<K: Eq + Borrow<Q>, Q: ?Sized + Eq, V> std::ops::Index<&Q> for HashMap<K, V> {
    type Output = V;
    fn index(&self, k: &Q) -> &V { self.get(k).expect("no entry found for key") }
}

// ------------------------------------------------------------ T3 helpers
pub fn push_pct_02x(out: &mut String, v: u32) {
    const HEX: &[u8; 16] = b"0123456789ABCDEF";
    out.push('%');
    // {:02X}: at least two digits, more if needed
    let mut started = false;
    let mut shift = 28i32;
    while shift >= 0 {
        let d = ((v >> shift) & 0xF) as usize;
        if d != 0 || started || shift <= 4 { out.push(HEX[d] as char); started = true; }
        shift -= 4;
    }
}
#[cfg(test)]
mod t3_tests {
    #[test]
    fn pct_matches_format() {
        for v in (0u32..0x3000).chain([0xFFFF, 0x10000, 0x10FFFF, u32::MAX]) {
            let mut s = String::new();
            super::push_pct_02x(&mut s, v);
            assert_eq!(s, format!("%{:02X}", v));
        }
    }
}
/// model of `write!(out, "{val:0width$}")` for u16
pub fn write_u16_zero_padded(out: &mut String, val: u16, width: usize) {
    let mut digits = [0u8; 5];
    let mut n = 0;
    let mut v = val;
    loop { digits[n] = b'0' + (v % 10) as u8; n += 1; v /= 10; if v == 0 { break; } }
    let mut pad = if width > n { width - n } else { 0 };
    while pad > 0 { out.push('0'); pad -= 1; }
    while n > 0 { n -= 1; out.push(digits[n] as char); }
}
#[cfg(test)]
mod t3b_tests {
    #[test]
    fn zero_padded_matches_format() {
        for width in 0..7usize { for val in (0u16..=u16::MAX).step_by(7).chain([9, 10, 99, 100, 999, 1000, 9999, 10000, u16::MAX]) {
            let mut s = String::new();
            super::write_u16_zero_padded(&mut s, val, width);
            assert_eq!(s, format!("{val:0width$}"));
        } }
    }
}

// ------------------------------------------------------------ BTreeSet (sorted)
#[derive(Clone, PartialEq, Eq, PartialOrd, Ord, Hash)]
pub struct BTreeSet<T> { s: Slots<T> }
impl<T> Default for BTreeSet<T> { fn default() -> Self { BTreeSet { s: Slots::default() } } }
impl<T> Debug for BTreeSet<T> { fn fmt(&self, _f: &mut std::fmt::Formatter<'_>) -> std::fmt::Result { Ok(()) } }
impl<T: Ord> BTreeSet<T> {
    pub fn new() -> Self { Self::default() }
    pub fn len(&self) -> usize { self.s.len() }
    pub fn is_empty(&self) -> bool { self.s.len() == 0 }
    fn search<Q: ?Sized + Ord>(&self, k: &Q) -> Result<usize, usize> where T: Borrow<Q> {
        let mut i = 0;
        while i < self.s.len() {
            match self.s.get(i).borrow().cmp(k) {
                std::cmp::Ordering::Less => i += 1,
                std::cmp::Ordering::Equal => return Ok(i),
                std::cmp::Ordering::Greater => return Err(i),
            }
        }
        Err(i)
    }
    pub fn insert(&mut self, t: T) -> bool {
        match self.search(&t) { Ok(_) => false, Err(i) => { self.s.insert_at(i, t); true } }
    }
    pub fn contains<Q: ?Sized + Ord>(&self, k: &Q) -> bool where T: Borrow<Q> { self.search(k).is_ok() }
    pub fn remove<Q: ?Sized + Ord>(&mut self, k: &Q) -> bool where T: Borrow<Q> {
        match self.search(k) { Ok(i) => { self.s.remove_at(i); true } Err(_) => false }
    }
    pub fn iter(&self) -> SlotIter<'_, T> { self.s.iter() }
    pub fn first(&self) -> Option<&T> { if self.s.len() == 0 { None } else { Some(self.s.get(0)) } }
    pub fn last(&self) -> Option<&T> { if self.s.len() == 0 { None } else { Some(self.s.get(self.s.len() - 1)) } }
    pub fn retain<F: FnMut(&T) -> bool>(&mut self, mut f: F) { self.s.retain(|t| f(t)) }
}
impl<T: Ord> FromIterator<T> for BTreeSet<T> {
    fn from_iter<I: IntoIterator<Item = T>>(it: I) -> Self { let mut s = Self::default(); for t in it { s.insert(t); } s }
}
impl<T: Ord> Extend<T> for BTreeSet<T> {
    fn extend<I: IntoIterator<Item = T>>(&mut self, it: I) { for t in it { self.insert(t); } }
}
impl<T: Ord, const N: usize> From<[T; N]> for BTreeSet<T> { fn from(a: [T; N]) -> Self { a.into_iter().collect() } }
impl<T> IntoIterator for BTreeSet<T> {
    type Item = T; type IntoIter = std::iter::Flatten<std::array::IntoIter<Option<T>, CAP>>;
    fn into_iter(self) -> Self::IntoIter { self.s.items.into_iter().flatten() }
}
impl<'a, T> IntoIterator for &'a BTreeSet<T> {
    type Item = &'a T; type IntoIter = std::iter::Flatten<std::slice::Iter<'a, Option<T>>>;
    fn into_iter(self) -> Self::IntoIter { self.s.items.iter().flatten() }
}
impl<T> serde::Serialize for BTreeSet<T> { fn serialize<S: serde::Serializer>(&self, _s: S) -> Result<S::Ok, S::Error> { unimplemented!() } }
impl<'de, T> serde::Deserialize<'de> for BTreeSet<T> { fn deserialize<D: serde::Deserializer<'de>>(_d: D) -> Result<Self, D::Error> { unimplemented!() } }

// ------------------------------------------------------------ wider API surface (so that edits to the code under
// test that use more of the std API still build against the shim)
pub mod btree_map {
    use super::Slots;
    pub enum Entry<'a, K, V> { Occupied(OccupiedEntry<'a, K, V>), Vacant(VacantEntry<'a, K, V>) }
    pub struct OccupiedEntry<'a, K, V> { pub(crate) s: &'a mut Slots<(K, V)>, pub(crate) i: usize }
    pub struct VacantEntry<'a, K, V> { pub(crate) s: &'a mut Slots<(K, V)>, pub(crate) i: usize, pub(crate) k: K }
    impl<'a, K, V> OccupiedEntry<'a, K, V> {
        pub fn get(&self) -> &V { &self.s.get(self.i).1 }
        pub fn get_mut(&mut self) -> &mut V { &mut self.s.get_mut(self.i).1 }
        pub fn into_mut(self) -> &'a mut V { &mut self.s.get_mut(self.i).1 }
        pub fn key(&self) -> &K { &self.s.get(self.i).0 }
        pub fn insert(&mut self, v: V) -> V { std::mem::replace(&mut self.s.get_mut(self.i).1, v) }
        pub fn remove(self) -> V { self.s.remove_at(self.i).1 }
    }
    impl<'a, K, V> VacantEntry<'a, K, V> {
        pub fn key(&self) -> &K { &self.k }
        pub fn insert(self, v: V) -> &'a mut V { self.s.insert_at(self.i, (self.k, v)); &mut self.s.get_mut(self.i).1 }
    }
    impl<'a, K, V> Entry<'a, K, V> {
        pub fn or_insert_with<F: FnOnce() -> V>(self, f: F) -> &'a mut V { match self { Entry::Occupied(o) => o.into_mut(), Entry::Vacant(v) => v.insert(f()) } }
        pub fn or_insert(self, v: V) -> &'a mut V { self.or_insert_with(|| v) }
        pub fn or_default(self) -> &'a mut V where V: Default { self.or_insert_with(V::default) }
        pub fn and_modify<F: FnOnce(&mut V)>(mut self, f: F) -> Self { if let Entry::Occupied(o) = &mut self { f(o.get_mut()); } self }
        pub fn key(&self) -> &K { match self { Entry::Occupied(o) => o.key(), Entry::Vacant(v) => v.key() } }
    }
}
impl<K: Ord, V> BTreeMap<K, V> {
    pub fn entry(&mut self, k: K) -> btree_map::Entry<'_, K, V> {
        match self.search(&k) {
            Ok(i) => btree_map::Entry::Occupied(btree_map::OccupiedEntry { s: &mut self.s, i }),
            Err(i) => btree_map::Entry::Vacant(btree_map::VacantEntry { s: &mut self.s, i, k }),
        }
    }
    pub fn get_mut<Q: ?Sized + Ord>(&mut self, k: &Q) -> Option<&mut V> where K: Borrow<Q> {
        match self.search(k) { Ok(i) => Some(&mut self.s.get_mut(i).1), Err(_) => None }
    }
    pub fn get_key_value<Q: ?Sized + Ord>(&self, k: &Q) -> Option<(&K, &V)> where K: Borrow<Q> {
        match self.search(k) { Ok(i) => { let e = self.s.get(i); Some((&e.0, &e.1)) } Err(_) => None }
    }
    pub fn first_key_value(&self) -> Option<(&K, &V)> { if self.s.len() == 0 { None } else { let e = self.s.get(0); Some((&e.0, &e.1)) } }
    pub fn last_key_value(&self) -> Option<(&K, &V)> { if self.s.len() == 0 { None } else { let e = self.s.get(self.s.len() - 1); Some((&e.0, &e.1)) } }
    pub fn pop_first(&mut self) -> Option<(K, V)> { if self.s.len() == 0 { None } else { Some(self.s.remove_at(0)) } }
    pub fn pop_last(&mut self) -> Option<(K, V)> { if self.s.len() == 0 { None } else { let n = self.s.len() - 1; Some(self.s.remove_at(n)) } }
    pub fn clear(&mut self) { self.s.clear() }
    pub fn values_mut(&mut self) -> impl Iterator<Item = &mut V> + '_ { self.s.iter_mut().map(|(_, v)| v) }
    pub fn iter_mut(&mut self) -> impl Iterator<Item = (&K, &mut V)> + '_ { self.s.iter_mut().map(|(k, v)| (&*k, v)) }
    pub fn into_keys(self) -> impl Iterator<Item = K> { self.s.into_iter().map(|(k, _)| k) }
    pub fn into_values(self) -> impl Iterator<Item = V> { self.s.into_iter().map(|(_, v)| v) }
    pub fn append(&mut self, other: &mut Self) { let o = std::mem::take(other); for (k, v) in o { self.insert(k, v); } }
    pub fn remove_entry<Q: ?Sized + Ord>(&mut self, k: &Q) -> Option<(K, V)> where K: Borrow<Q> {
        match self.search(k) { Ok(i) => Some(self.s.remove_at(i)), Err(_) => None }
    }
}
impl<K: Eq, V> HashMap<K, V> {
    pub fn iter_mut(&mut self) -> impl Iterator<Item = (&K, &mut V)> + '_ { self.s.iter_mut().map(|(k, v)| (&*k, v)) }
    pub fn into_keys(self) -> impl Iterator<Item = K> { self.s.into_iter().map(|(k, _)| k) }
    pub fn into_values(self) -> impl Iterator<Item = V> { self.s.into_iter().map(|(_, v)| v) }
    pub fn get_key_value<Q: ?Sized + Eq>(&self, k: &Q) -> Option<(&K, &V)> where K: Borrow<Q> { self.pos(k).map(|i| { let e = self.s.get(i); (&e.0, &e.1) }) }
    pub fn remove_entry<Q: ?Sized + Eq>(&mut self, k: &Q) -> Option<(K, V)> where K: Borrow<Q> { self.pos(k).map(|i| self.s.remove_at(i)) }
    pub fn drain(&mut self) -> impl Iterator<Item = (K, V)> { std::mem::take(&mut self.s).into_iter() }
    pub fn reserve(&mut self, _n: usize) {}
    pub fn shrink_to_fit(&mut self) {}
}
impl<'a, K, V> IntoIterator for &'a mut HashMap<K, V> {
    type Item = (&'a K, &'a mut V);
    type IntoIter = std::iter::Map<std::iter::Flatten<std::slice::IterMut<'a, Option<(K, V)>>>, fn(&'a mut (K, V)) -> (&'a K, &'a mut V)>;
    fn into_iter(self) -> Self::IntoIter { self.s.items.iter_mut().flatten().map(|e| (&e.0, &mut e.1)) }
}
impl<T: Eq> HashSet<T> {
    pub fn clear(&mut self) { self.s.clear() }
    pub fn with_capacity(_n: usize) -> Self { Self::default() }
    pub fn reserve(&mut self, _n: usize) {}
    pub fn take<Q: ?Sized + Eq>(&mut self, k: &Q) -> Option<T> where T: Borrow<Q> { self.pos(k).map(|i| self.s.remove_at(i)) }
    pub fn drain(&mut self) -> impl Iterator<Item = T> { std::mem::take(&mut self.s).into_iter() }
    pub fn is_subset(&self, o: &Self) -> bool { self.s.iter().all(|t| o.contains(t)) }
    pub fn is_superset(&self, o: &Self) -> bool { o.is_subset(self) }
    pub fn is_disjoint(&self, o: &Self) -> bool { !self.s.iter().any(|t| o.contains(t)) }
    pub fn intersection<'a>(&'a self, o: &'a Self) -> impl Iterator<Item = &'a T> + 'a { self.s.iter().filter(move |t| o.contains(*t)) }
    pub fn difference<'a>(&'a self, o: &'a Self) -> impl Iterator<Item = &'a T> + 'a { self.s.iter().filter(move |t| !o.contains(*t)) }
    pub fn union<'a>(&'a self, o: &'a Self) -> impl Iterator<Item = &'a T> + 'a { self.s.iter().chain(o.s.iter().filter(move |t| !self.contains(*t))) }
}
impl<T: Ord> BTreeSet<T> {
    pub fn clear(&mut self) { self.s.clear() }
    pub fn pop_first(&mut self) -> Option<T> { if self.s.len() == 0 { None } else { Some(self.s.remove_at(0)) } }
    pub fn pop_last(&mut self) -> Option<T> { if self.s.len() == 0 { None } else { let n = self.s.len() - 1; Some(self.s.remove_at(n)) } }
    pub fn is_subset(&self, o: &Self) -> bool { self.s.iter().all(|t| o.contains(t)) }
    pub fn is_disjoint(&self, o: &Self) -> bool { !self.s.iter().any(|t| o.contains(t)) }
    pub fn intersection<'a>(&'a self, o: &'a Self) -> impl Iterator<Item = &'a T> + 'a { self.s.iter().filter(move |t| o.contains(*t)) }
    pub fn difference<'a>(&'a self, o: &'a Self) -> impl Iterator<Item = &'a T> + 'a { self.s.iter().filter(move |t| !o.contains(*t)) }
    pub fn take<Q: ?Sized + Ord>(&mut self, k: &Q) -> Option<T> where T: Borrow<Q> { match self.search(k) { Ok(i) => Some(self.s.remove_at(i)), Err(_) => None } }
    pub fn get<Q: ?Sized + Ord>(&self, k: &Q) -> Option<&T> where T: Borrow<Q> { match self.search(k) { Ok(i) => Some(self.s.get(i)), Err(_) => None } }
}
impl<T> Default for SlotsIntoIter<T> { fn default() -> Self { SlotsIntoIter(std::marker::PhantomData) } }
pub struct SlotsIntoIter<T>(std::marker::PhantomData<T>);

impl<'a, T: Eq + Copy> Extend<&'a T> for HashSet<T> {
    fn extend<I: IntoIterator<Item = &'a T>>(&mut self, it: I) { for t in it { self.insert(*t); } }
}
impl<'a, T: Ord + Copy> Extend<&'a T> for BTreeSet<T> {
    fn extend<I: IntoIterator<Item = &'a T>>(&mut self, it: I) { for t in it { self.insert(*t); } }
}
impl<'a, K: Eq + Copy, V: Copy> Extend<(&'a K, &'a V)> for HashMap<K, V> {
    fn extend<I: IntoIterator<Item = (&'a K, &'a V)>>(&mut self, it: I) { for (k, v) in it { self.insert(*k, *v); } }
}
