//! Differential self-test of the trusted substitutions (DESIGN.md §4):
//! every sequence of <= 4 operations over a 3-key universe is run on the shim
//! container and on the std container, and all observable results must agree
//! (unordered containers are compared as sets). `VSort` is compared with the
//! std stable sort on every array of length <= 5 over 3 keys (stability is
//! observable through a payload).
use crate::shim;
use crate::shim::VSort;

const KEYS: [u8; 3] = [1, 2, 3];

#[derive(Clone, Copy, Debug)]
enum Op { Insert(u8, u8), Remove(u8), Get(u8), Contains(u8), Len }

fn ops() -> Vec<Op> {
    let mut v = vec![Op::Len];
    for k in KEYS {
        v.push(Op::Insert(k, k * 10));
        v.push(Op::Insert(k, k * 10 + 1));
        v.push(Op::Remove(k));
        v.push(Op::Get(k));
        v.push(Op::Contains(k));
    }
    v
}

fn sequences(n: usize) -> Vec<Vec<Op>> {
    let all = ops();
    let mut out: Vec<Vec<Op>> = vec![vec![]];
    for _ in 0..n {
        let mut next = Vec::new();
        for s in &out {
            for o in &all {
                let mut t = s.clone();
                t.push(*o);
                next.push(t);
            }
        }
        out.extend(next.clone());
        out = { let mut o2 = out; o2.sort_by_key(|s| s.len()); o2.dedup_by(|a, b| format!("{a:?}") == format!("{b:?}")); o2 };
    }
    out
}

#[test]
fn hashmap_and_btreemap_agree_with_std() {
    let mut n = 0;
    for seq in sequences(4) {
        let mut a: shim::HashMap<u8, u8> = shim::HashMap::new();
        let mut b: shim::BTreeMap<u8, u8> = shim::BTreeMap::new();
        let mut r: std::collections::BTreeMap<u8, u8> = std::collections::BTreeMap::new();
        for op in &seq {
            match *op {
                Op::Insert(k, v) => { let e = r.insert(k, v); assert_eq!(a.insert(k, v), e); assert_eq!(b.insert(k, v), e); }
                Op::Remove(k) => { let e = r.remove(&k); assert_eq!(a.remove(&k), e); assert_eq!(b.remove(&k), e); }
                Op::Get(k) => { let e = r.get(&k); assert_eq!(a.get(&k), e); assert_eq!(b.get(&k), e); }
                Op::Contains(k) => { let e = r.contains_key(&k); assert_eq!(a.contains_key(&k), e); assert_eq!(b.contains_key(&k), e); }
                Op::Len => { assert_eq!(a.len(), r.len()); assert_eq!(b.len(), r.len()); }
            }
        }
        // iteration: sorted map in key order, unordered map as a set
        let rv: Vec<(u8, u8)> = r.iter().map(|(k, v)| (*k, *v)).collect();
        let bv: Vec<(u8, u8)> = b.iter().map(|(k, v)| (*k, *v)).collect();
        assert_eq!(bv, rv);
        let mut av: Vec<(u8, u8)> = a.iter().map(|(k, v)| (*k, *v)).collect();
        av.sort();
        assert_eq!(av, rv);
        n += 1;
    }
    assert!(n > 10_000);
}

#[test]
fn sets_agree_with_std() {
    for seq in sequences(4) {
        let mut a: shim::HashSet<u8> = shim::HashSet::new();
        let mut b: shim::BTreeSet<u8> = shim::BTreeSet::new();
        let mut r: std::collections::BTreeSet<u8> = std::collections::BTreeSet::new();
        for op in &seq {
            match *op {
                Op::Insert(k, _) => { let e = r.insert(k); assert_eq!(a.insert(k), e); assert_eq!(b.insert(k), e); }
                Op::Remove(k) => { let e = r.remove(&k); assert_eq!(a.remove(&k), e); assert_eq!(b.remove(&k), e); }
                Op::Get(k) | Op::Contains(k) => { let e = r.contains(&k); assert_eq!(a.contains(&k), e); assert_eq!(b.contains(&k), e); }
                Op::Len => { assert_eq!(a.len(), r.len()); assert_eq!(b.len(), r.len()); }
            }
        }
        let rv: Vec<u8> = r.iter().copied().collect();
        let bv: Vec<u8> = b.iter().copied().collect();
        assert_eq!(bv, rv);
        let mut av: Vec<u8> = a.iter().copied().collect();
        av.sort();
        assert_eq!(av, rv);
    }
}

#[test]
fn indexmap_keeps_insertion_order() {
    for seq in sequences(4) {
        let mut a: shim::indexmap::IndexMap<u8, u8> = shim::indexmap::IndexMap::new();
        let mut r: Vec<(u8, u8)> = Vec::new(); // reference: insertion-ordered association list
        for op in &seq {
            if let Op::Insert(k, v) = *op {
                let e = match r.iter_mut().find(|(kk, _)| *kk == k) { Some(s) => Some(std::mem::replace(&mut s.1, v)), None => { r.push((k, v)); None } };
                assert_eq!(a.insert(k, v), e);
            }
        }
        let av: Vec<(u8, u8)> = a.into_iter().collect();
        assert_eq!(av, r);
    }
}

#[test]
fn vsort_is_the_std_stable_sort() {
    // arrays of (key, payload) with keys in 0..3: stability is visible in the payload order
    for len in 0..=5usize {
        let total = 3usize.pow(len as u32);
        for code in 0..total {
            let mut c = code;
            let mut v: Vec<(u8, usize)> = Vec::new();
            for i in 0..len { v.push(((c % 3) as u8, i)); c /= 3; }
            let mut e = v.clone(); e.sort_by_key(|x| x.0);
            let mut a = v.clone(); a.vsort_by_key(|x| x.0);
            assert_eq!(a, e);
            let mut a = v.clone(); a.vsort_by(|x, y| x.0.cmp(&y.0));
            assert_eq!(a, e);
            let mut e: Vec<u8> = v.iter().map(|x| x.0).collect();
            let mut a = e.clone();
            e.sort(); a.vsort();
            assert_eq!(a, e);
        }
    }
}

#[test]
fn entry_api_agrees_with_std() {
    // every sequence of <= 4 entry operations over 3 keys
    let keys = [1u8, 2, 3];
    let mut seqs: Vec<Vec<(u8, u8)>> = vec![vec![]];
    for _ in 0..4 {
        let mut next = Vec::new();
        for s in &seqs { for k in keys { for op in 0..4u8 { let mut t = s.clone(); t.push((k, op)); next.push(t); } } }
        seqs.extend(next);
    }
    seqs.sort(); seqs.dedup();
    for seq in seqs.iter().filter(|s| s.len() <= 4) {
        let mut a: shim::HashMap<u8, u32> = shim::HashMap::new();
        let mut b: shim::BTreeMap<u8, u32> = shim::BTreeMap::new();
        let mut r: std::collections::BTreeMap<u8, u32> = std::collections::BTreeMap::new();
        for (k, op) in seq {
            match op {
                0 => { *r.entry(*k).or_insert(7) += 1; *a.entry(*k).or_insert(7) += 1; *b.entry(*k).or_insert(7) += 1; }
                1 => { *r.entry(*k).or_default() += 2; *a.entry(*k).or_default() += 2; *b.entry(*k).or_default() += 2; }
                2 => { r.entry(*k).and_modify(|v| *v *= 3).or_insert(1); a.entry(*k).and_modify(|v| *v *= 3).or_insert(1); b.entry(*k).and_modify(|v| *v *= 3).or_insert(1); }
                _ => {
                    use std::collections::btree_map::Entry as E;
                    match r.entry(*k) { E::Occupied(o) => { o.remove(); } E::Vacant(v) => { v.insert(9); } }
                    match a.entry(*k) { shim::hash_map::Entry::Occupied(o) => { o.remove(); } shim::hash_map::Entry::Vacant(v) => { v.insert(9); } }
                    match b.entry(*k) { shim::btree_map::Entry::Occupied(o) => { o.remove(); } shim::btree_map::Entry::Vacant(v) => { v.insert(9); } }
                }
            }
        }
        let rv: Vec<(u8, u32)> = r.iter().map(|(k, v)| (*k, *v)).collect();
        let bv: Vec<(u8, u32)> = b.iter().map(|(k, v)| (*k, *v)).collect();
        let mut av: Vec<(u8, u32)> = a.iter().map(|(k, v)| (*k, *v)).collect();
        av.sort();
        assert_eq!(bv, rv);
        assert_eq!(av, rv);
    }
}
