#!/usr/bin/env python3
"""writes /verif/MANIFEST.json from kit/config.py (claimed properties) + the not-applicable table below"""
import json
import os
import sys

VERIF = os.path.dirname(os.path.dirname(os.path.abspath(__file__)))
sys.path.insert(0, os.path.join(VERIF, "kit"))
import config  # noqa: E402

NA = {
    "C01": "whole-process statement (hash seeds, rayon schedules, completion order): not quantifiable by a bounded symbolic execution of any fontc-owned kernel; order-independence of VariationModel::new could only be enumerated, which is testing, not solving (DESIGN.md §5)",
    "C05": "sfnt directory/offsets/checksums are write-fonts' FontBuilder (third-party); fontc's part is table plumbing over Context; cross-table index ranges are properties of a whole run, which cannot be encoded",
    "C06": "GlyphOrder is an IndexSet<GlyphName> manipulated inside job bodies over Context; cmap/post are job bodies; no kernel fits CBMC (SmolStr-keyed containers exhaust memory)",
    "C09": "kerning reconciliation is ~500 lines over BTreeMap<&KernGroup, BTreeSet<&GlyphName>> with SmolStr keys: measured out of reach for CBMC; the value arithmetic is decided under C07",
    "C11": "needs a symbolic FEA compiler run; the one self-contained kernel (glyph_range::named) builds Strings and did not leave CBMC symex in 50 min; the defect found by reading ([a01-a03] drops a03) is documented in DESIGN.md §6-5, not claimed",
    "C12": "shape-preservation logic (flatten_glyph, convert_components_to_contours, ...) reads/writes glyphs through Context (Arc<RwLock<HashMap>>, BezPath): not encodable",
    "C14": "whole-run / serde statements; string_to_filename harnesses ran out of memory (19-33 GB); kern_ir_file needs {:.2} float formatting, which CBMC cannot execute; defect (two kerning locations, one file) documented in DESIGN.md §6-4",
    "C15": "parsers of file trees are out of reach; component-graph walks over SmolStr/Arc containers exhausted CBMC; defect (component cycle -> stack overflow) documented in DESIGN.md §6-2; lexer termination is part of C13",
    "C18": "name id allocation sits in StaticMetadata::new over String-keyed maps and format!-built strings: out of reach for CBMC",
    "C20": "compares whole runs differing only in I/O route (CLI vs library, file vs memory, UFO vs designspace): file-system access and parsers, not a bounded computation over values",
}

TEXT = {
    "C02": ("Kernel-level, bounded: CBMC proves for the identifier instantiation I = TestId (three variants, one with payload) that the access-rule matcher admits exactly what the rule says "
            "(Specific by equality, Variant by discriminant, Set = union, None/Unknown nothing, All everything), that the builder result is exactly the union of <= 3 additions, that the default "
            "write access is own id + also_completes, and that the ACL assertion fires iff the id is not admitted. This is one of the five mechanisms behind C02; nothing about scheduling, "
            "threads or job declarations is decided.",
            "Trusted: Kani/CBMC, verif_shim HashSet (capacity 4, self-tested against std). Production ids (WorkId/AnyWorkId) are not the verified instantiation."),
    "C03": ("fontc-owned arithmetic only, bounded: (a) z3 and cvc5 prove for every enumerated master layout that the real deltas_with_rounding::<P,V>/interpolate_from_deltas::<V>, instantiated with a 2-D "
            "point/vector pair as gvar uses them, reproduce every master within 0.5 per coordinate with rounding (exactly without; exactly at the default for integer masters) for ALL master values; "
            "(b) CBMC proves that component offsets are rounded half-up exactly or rejected, that composite deltas are zero-optional and never altered beyond rounding inside the 16-bit range, and that "
            "fontir's consistency guard reports a composite as consistent exactly when base and all four 2x2 coefficients agree at every master (so a 2x2 that varies is decomposed, not frozen). "
            "Simple-glyph outlines (kurbo cu2qu, write-fonts point streams and IUP) are not covered.",
            "Trusted: z3+cvc5 agreement, Sym recorder (validated against f64 runs), Kani/CBMC. Layouts are enumerated (catalog + grids), values solved."),
    "C04": ("Kernel-level, bounded: (a) z3 and cvc5 prove for every enumerated master layout that the real deltas_with_rounding/interpolate_from_deltas (the arithmetic HVAR/VVAR/MVAR deltas are computed with) "
            "reproduce every master within 0.5 for ALL real master values and, for integer master values (rounded advances/metrics), exactly at the default; (b) CBMC proves that the phantom points every advance delta is "
            "read from are (0,0), (rounded advance,0) and, when vertical metrics are built, (0, rounded vertical origin), (0, origin - rounded height) with the documented fall-backs to the typo metrics; (c) CBMC proves "
            "that each OS/2 default-location metric field is the half-up rounding of its own source metric. The HVAR/VVAR/MVAR assembly and the hhea/post/vhea fields are job bodies and are NOT covered.",
            "Trusted: as C07 for (a); Kani/CBMC for (b), (c). Advances beyond 65535 are the recorded C19 finding."),
    "C07": ("Bounded, solver-decided. (1) For every enumerated master layout (catalog + exhaustive grids) z3 and cvc5 both prove that the real deltas_with_rounding/interpolate_from_deltas reproduce every "
            "master for ALL real/integer master values (exactly without rounding, within 0.5 with rounding, exactly at the default for integer masters), including sparse master subsets. (2) CBMC proves, for all "
            "coordinates on the k/4 grid, the region facts on the steps of the construction: Tent::new/validate (full f64), scalar_at in [0,1], regions_for, the trimming step of master_influence (valid, keeps "
            "peak, only shrinks, no influence at earlier masters), delta_weights. Order-independence of the result is NOT decided (LocationSortingHat::key_for exhausts CBMC).",
            "Trusted: Kani/CBMC/CaDiCaL, z3+cvc5 agreement, verif_shim containers + insertion sort (self-tested against std each run), the Sym term recorder (validated against f64 runs each run). "
            "Float rounding inside value arithmetic is not modelled in SV (coefficients are the exact f64 values the code computed)."),
    "C08": ("Converter kernels only, bounded: CBMC proves on the k/4 grid that PiecewiseLinearMap::map is node-exact (first duplicate), keeps the offset outside the nodes, stays within neighbouring nodes, is monotone for "
            "monotone data, that new/reverse keep pairs and invert at nodes, and that CoordConverter::new (8 concrete design shapes, symbolic user values) maps every user node to its design value and to the "
            "reference design normalization (default 0, design min -1, design max +1), keeps in-range values inside the node hull, and that normalized grid values are exact in 2.14. "
            "The avar/fvar tables themselves (fontbe::avar::to_segment_map) did not fit CBMC and are NOT covered.",
            "Trusted: Kani/CBMC, insertion-sort model of slice::sort. Design-side selection logic is covered on a catalog of shapes only."),
    "C10": ("Kernel-level, bounded: CBMC proves that AnchorKind::new classifies every 3-byte name over {_,a,0,1,2} as the ufo2ft rules (written out independently) say, that _g, g and g_N carry the same group name, "
            "the caret/cursive names, and that anchors inherited from a mirrored component are renamed (top<->bottom, left<->right, entry<->exit) exactly when mirrored on that axis. "
            "Anchor coordinates, the rest of propagation, mark groups, lookups and GDEF are not covered.",
            "Trusted: Kani/CBMC; std str::parse/strip_prefix/rsplit_once and SmolStr are executed, not modelled."),
    "C13": ("Token-stream level, bounded: CBMC proves for every window of N ASCII bytes (N = 3, 4; 5 thorough), and for a 2-byte char between ASCII bytes, from every lexer state, that every token consumes input, "
            "token lengths sum to the window, Eof is produced only at the end, token boundaries are char boundaries, and the loop terminates within N+1 tokens without panic; and, for the parser's error-recovery sets, "
            "that every lexer Kind fits the 128-bit TokenSet mask (no shift overflow: a dev panic / release aliasing) and that TokenSet membership (new, add, union, contains, the composed recovery sets) is exact for "
            "every Kind. The parser proper, the tree sink, include resolution, diagnostic ranges and validation are not covered.",
            "Trusted: Kani/CBMC. Windows start in an arbitrary lexer state, so the bound is on the window, not the file; multi-byte chars beyond one 2-byte char are outside. SourceMap::resolve_range and the line "
            "table were harnessed and did not fit (16 GB)."),
    "C16": ("Bounded, solver-decided. (1) BV: for every enumerated rule layout (catalog incl. 65/66/130 rules, two-box regions, same-region and same-substitution rules; exhaustive grids: 1 axis k/2 with 1-3 rules, "
            "2 axes k/2 with 2 rules, 2 axes {-1,0,1} with 3 rules; more in thorough) the real overlay_feature_variations runs natively and z3 and cvc5 both prove that at EVERY designspace point (all reals in [-1,1]^n "
            "off the rule-box bounds) the first output box containing the point applies, per glyph, exactly the substitution of the first source rule in order that contains the point. "
            "(2) CBMC proves the box step (NBox::overlay_onto) for all 1-axis shapes (2-axis shapes thorough) on the k/4 grid with k/8 probes, that the rank sort key is strictly monotone in the number of contributing "
            "rules for ranks of 0-3 words, and that rank arithmetic agrees with plain integers for operands of different word counts. One genuine deviation from rule order is carried as a known finding "
            "(same-region rules are merged at the position of the later one, as in fontTools). Design-space normalisation of conditions in fontbe, record sorting in fea-rs and lookup construction are not covered.",
            "Trusted: Kani/CBMC, verif_shim BTreeMap/HashSet/IndexMap; for BV z3+cvc5 agreement and the 60-line encoding of 'first matching box' / 'first rule in order' in kit/boxval. "
            "Rule layouts are enumerated, not solved; points on a bound of a rule box (measure zero) are outside."),
    "C17": ("hmtx/hhea, OS/2 bit-field and maxp/max-context kernels, bounded: CBMC proves for 1 and 3 glyphs (4 thorough) with every input symbolic that MetricsBuilder's long metrics + side-bearing run reconstruct the "
            "inputs exactly with a minimal number of long metrics, and that advance max, min lsb, min rsb and max extent equal a first-principles fold over non-empty glyphs (with the documented i16 clamping); "
            "for EVERY codepoint <= 0x10FFFF that add_unicode_range_bits sets exactly the bit of the table row containing it plus bit 57 iff beyond the BMP (table proved sorted and disjoint), that "
            "ulUnicodeRange1-4 / ulCodePageRange1-2 are the exact packing of two symbolic assigned bits, that usFirst/LastCharIndex are min/max of three symbolic codepoints capped at "
            "0xFFFF; that maxp composite maxima are accumulated field-wise and that the per-rule max-context length is input / input+lookahead / 1+lookahead. "
            "Composite bounding boxes, the composite-limit iteration, head bbox, loca, average char width are assembled in job bodies and are not covered.",
            "Trusted: Kani/CBMC; verif_shim HashSet for the OS/2 kernels (T1 on fontbe/src/os2.rs, T1f on the two MiscMetadata fields). codepage_range_bits (the character rules) did not fit CBMC and is not covered."),
    "C19": ("Harnessed narrowing sites only, bounded by value range (full f64 / full integer ranges), overflow and panic checks ON: component offsets are rejected or exact; component scales in [-2,2] are within half a 2.14 step; "
            "fontir's overflow guard requests decomposition exactly for 2x2 coefficients outside [-2,2]; user coordinates are stored to the nearest 16.16 step; "
            "composite deltas and use-my-metrics comparisons are exact inside the 16-bit range; MetricsBuilder::update cannot overflow; every OS/2 metric field is the half-up rounding of its own metric; "
            "WidthClass::try_from is total. Three genuine defects outside the repaired ones are carried as known findings (composite deltas, advances and font-wide metrics beyond 16 bits saturate). "
            "The evidence lists every narrowing site of fontbe/fontir/fontdrasil and whether it is harnessed; sites in job bodies are outside the claim.",
            "Trusted: Kani/CBMC. Counterexamples are replayed natively in dev and release profiles (profile disagreement counts)."),
}
TECH = "bounded model checking (Kani 0.68 / CBMC 6.11 / CaDiCaL) of the real functions in an overlay of /repo's working tree"
TECH_SV = TECH + " + SMT (z3, cvc5) over terms recorded from the real generic code"
TECH_BV = TECH + " + SMT (z3, cvc5) validation, for all designspace points, of the output of the real overlay_feature_variations run natively on each enumerated rule layout"


def main():
    props = [json.loads(l) for l in open(os.path.join(VERIF, "properties.jsonl"))]
    claimed = sorted(config.PROPERTIES)
    m = {
        "version": 1,
        "setup_cmd": "bin/vk setup",
        "hooks": {
            "guard": "cfg(kani) / cfg(verif_replay) in the overlay only; no hook is committed to /repo",
            "enable": "kit/overlay.py copies /repo's working tree to /tmp/vk-overlay/<group>-<profile>, redirects container imports and sorts of the listed files to kit/verif_shim and appends harness/<crate>/<module>.rs as #[cfg(any(kani, verif_replay))] child modules; cargo kani (or cargo test --cfg verif_replay for native replay) then builds that copy",
            "baseline_off_cmd": "cd /repo && cargo nextest run --workspace --no-fail-fast --tool-config-file pb:/w/lib/nextest.toml --profile pb --test-threads 8 --offline",
            "source_commits": [],
            "add_only": True,
        },
        "engines": [
            {"name": "kani-overlay", "path": "kit/overlay.py kit/kani_run.py kit/verif_shim harness/", "serves_properties": claimed,
             "kind_free_text": "Kani 0.68 -> CBMC 6.11 -> CaDiCaL bounded model checking of the real kernel functions in an overlay of /repo's working tree; symbolic inputs via kani::any, unwinding assertions on, reachability covers against vacuity, counterexamples replayed natively (dev + release) before they are reported"},
            {"name": "symval-smt", "path": "kit/symval kit/svcheck.py", "serves_properties": sorted(config.SV_PROPERTIES),
             "kind_free_text": "the real generic VariationModel::deltas_with_rounding<P,V>/interpolate_from_deltas<V> run on an expression-recording value type; z3 and cvc5 decide the round trip for all master values per enumerated layout; sat models are replayed on f64"},
            {"name": "boxval-smt", "path": "kit/boxval kit/bvcheck.py", "serves_properties": sorted(config.BV_PROPERTIES),
             "kind_free_text": "the real overlay_feature_variations (unmodified /repo/fontir, public API) runs natively on each enumerated rule layout; z3 and cvc5 decide, for all real designspace points at once, that the first matching output box applies what the source rules say; sat models are replayed natively on a dyadic witness point"},
        ],
        "checks": [],
        "notes": "Solver-based checking of the real code: see DESIGN.md. Exit 2 from a check means inconclusive (encoding failed, solver budget, vacuous harness, non-reproducing counterexample) and is never a verdict. Fix commits in /repo and findings carried are listed in known_findings.json.",
        "not_applicable": [],
    }
    for p in props:
        pid = p["id"]
        if pid in config.PROPERTIES:
            text, note = TEXT[pid]
            m["checks"].append({
                "property_id": pid,
                "quick_cmd": f"bin/vk check {pid} --tier quick",
                "thorough_cmd": f"bin/vk check {pid} --tier thorough",
                "evidence_file": f"evidence/{pid}.json",
                "replay_cmd_template": "bin/vk replay {path}",
                "engine": "kani-overlay + symval-smt" if pid in config.SV_PROPERTIES else ("kani-overlay + boxval-smt" if pid in config.BV_PROPERTIES else "kani-overlay"),
                "level_claimed": {"category": "model_checking", "text": text, "design_ref": f"DESIGN.md §5 {pid}"},
                "level_note": note,
                "technique": TECH_SV if pid in config.SV_PROPERTIES else (TECH_BV if pid in config.BV_PROPERTIES else TECH),
            })
        else:
            m["not_applicable"].append({"property_id": pid, "reason": NA[pid]})
    json.dump(m, open(os.path.join(VERIF, "MANIFEST.json"), "w"), indent=1)
    print("claimed:", claimed, "not applicable:", [x["property_id"] for x in m["not_applicable"]])


if __name__ == "__main__":
    main()
