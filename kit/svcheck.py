"""SV engine driver (symbolic values through the code's own type parameter) — see kit/symval.

The native crate kit/symval has a path dependency on the UNMODIFIED /repo/fontdrasil and is
rebuilt from /repo's working tree on every run (cargo notices edits)."""
import json
import os
import shutil
import subprocess
import time

import overlay

VERIF = overlay.VERIF
CACHE = os.path.join(VERIF, ".cache")
CRATE = os.path.join(VERIF, "kit", "symval")
BIN = os.path.join(CACHE, "symval", "debug", "symval")

BUDGET_S = {"quick": 420, "thorough": 3000}
WORKERS = {"quick": 12, "thorough": 14}


def _env():
    e = dict(os.environ)
    e["CARGO_NET_OFFLINE"] = "true"
    e.pop("RUSTFLAGS", None)
    e.pop("CARGO_TARGET_DIR", None)
    return e


def build(verbose=False):
    # the lock file of the repository pins the third-party versions the real build uses
    shutil.copy(os.path.join(overlay.REPO, "Cargo.lock"), os.path.join(CRATE, "Cargo.lock"))
    p = subprocess.run(["cargo", "build", "--offline", "--target-dir", os.path.join(CACHE, "symval")],
                       cwd=CRATE, env=_env(), stdout=subprocess.PIPE, stderr=subprocess.STDOUT, text=True)
    if verbose or p.returncode != 0:
        print(p.stdout[-3000:])
    return p.returncode


def run(pid, tier, seed):
    t0 = time.time()
    rc = build()
    if rc != 0:
        return [{"batch": f"sv-{pid}", "status": "encoding_failed",
                 "note": "kit/symval does not build against /repo/fontdrasil (public API of the generic functions changed?)",
                 "wall_s": round(time.time() - t0, 1), "queries": 0, "nontrivial": 0}]
    out = os.path.join(CACHE, f"sv-{pid}-{tier}.json")
    rdir = os.path.join(VERIF, "evidence", "replays")
    os.makedirs(rdir, exist_ok=True)
    if os.path.exists(out):
        os.remove(out)
    p = subprocess.run([BIN, "run", "--prop", pid, "--tier", tier, "--seed", str(seed), "--workers", str(WORKERS[tier]),
                        "--budget", str(BUDGET_S[tier]), "--out", out, "--replay-dir", rdir],
                       env=_env(), stdout=subprocess.PIPE, stderr=subprocess.STDOUT, text=True)
    if p.returncode != 0 or not os.path.exists(out):
        return [{"batch": f"sv-{pid}", "status": "error", "note": p.stdout[-500:], "wall_s": round(time.time() - t0, 1), "queries": 0, "nontrivial": 0}]
    d = json.load(open(out))
    rec = {
        "batch": f"sv-{pid}-{tier}: deltas_with_rounding/interpolate_from_deltas on symbolic values",
        "functions": ["fontdrasil/src/variations.rs::VariationModel::deltas_with_rounding<P,V>",
                      "fontdrasil/src/variations.rs::VariationModel::interpolate_from_deltas<V>",
                      "fontdrasil/src/variations.rs::VariationModel::new (natively, per enumerated layout)"],
        "instantiation": "P=V=Sym (1-D)" if pid != "C03" else "P=SymP2, V=SymV2 (2-D, as kurbo Point/Vec2 in gvar)",
        "bound": "master VALUES: unbounded reals (LRA) / unbounded integers (LIRA). master LAYOUTS: enumerated, not solved — catalog + "
                 + ("1 axis k/4 m<=4, 2 axes k/4 m<=2, 2 axes k/2 m<=4, 2 axes k/4 inside one quadrant m=3 (three quadrants) and m=4 (one)" if tier == "quick" else
                    "1 axis k/4 and k/8 m<=4, 2 axes k/4 m<=3, 2 axes k/2 m<=4, 3 axes k/2 m<=3")
                 + "; every subset of masters containing the default for layouts of <= %d masters" % (4 if tier == "quick" else 5),
        "oracle": "no rounding: reconstructed == master (|diff| <= 1e-9, coefficients exact dyadic rationals); rounding: |diff| <= 0.5; "
                  "integer masters: exact at the default; per layout a vacuity twin (bound/4) must be sat",
        "queries": d["queries"],
        "unsat": d["unsat"],
        "vacuity_twins_sat": d["vacuity_twins_sat"],
        "nontrivial": d["nontrivial_layouts"],
        "layouts_enumerated": d["layouts_enumerated"],
        "layouts_total": d["layouts_total"],
        "recorder_validations": d["recorder_validations"],
        "solver_s": d["solver_s"],
        "wall_s": round(time.time() - t0, 1),
        "sample_queries": d["samples"][:4],
    }
    if d["n_violations"]:
        with_file = [v for v in d["violations"] if v.split("|")[0]]
        first = (with_file or d["violations"])[0].split("|")
        rec["status"] = "violation"
        rec["note"] = "%d layouts violate; first: %s" % (d["n_violations"], first[1] if len(first) > 1 else "")
        rec["replay"] = {"path": first[0], "labels": [first[1] if len(first) > 1 else "sv"]}
        rec["violations"] = d["violations"][:10]
    elif d["n_inconclusive"]:
        rec["status"] = "inconclusive"
        rec["note"] = "%d inconclusive; first: %s" % (d["n_inconclusive"], d["inconclusive"][0][:300])
    elif d["cut_short_by_budget"]:
        rec["status"] = "proved"
        rec["note"] = "time budget cut the enumeration at %d of %d layouts (reported, not silent)" % (d["layouts_enumerated"], d["layouts_total"])
    else:
        rec["status"] = "proved"
        rec["note"] = "%d layouts, %d queries, z3 and cvc5 agree" % (d["layouts_enumerated"], d["queries"])
    return [rec]


def replay_file(d):
    if build() != 0:
        print("symval does not build")
        return 2
    path = d.get("path_self")
    p = subprocess.run([BIN, "replay", path], env=_env())
    return p.returncode
