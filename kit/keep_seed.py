#!/usr/bin/env python3
"""keep a third-round seeded change: copy the agent's files from its worktree into /verif/seeded/<id>/ and write meta.json
usage: keep_seed.py <ID-n> <property> "<change>" "<needs_to_manifest>" """
import json, os, shutil, sys
mid, prop, change, needs = sys.argv[1:5]
wt = "/tmp/wt-" + mid.rsplit("-", 1)[0]
n = mid.rsplit("-", 1)[1]
d = f"/verif/seeded/{mid}"
os.makedirs(d, exist_ok=True)
for f, t in (("patch.diff", "patch.diff"), ("demo.patch", "demo.patch"), ("demo_cmd.txt", "demo_cmd.txt"), ("notes.md", "agent_notes.md")):
    src = f"{wt}/out/{n}/{f}"
    if os.path.exists(src):
        shutil.copy(src, f"{d}/{t}")
v = json.load(open(f"{d}/verify.json")) if os.path.exists(f"{d}/verify.json") else {}
meta = {"id": mid, "property": prop, "change": change, "needs_to_manifest": needs,
        "confirmed_by_me": {"how": "kit/verify_seed.py in the agent's scratch worktree: patch applied -> full nextest suite (must be 1106 passed / the 3 baseline failures); demo.patch applied -> demonstration must fail; patch reverted -> demonstration must pass",
                            "suite_with_change": v.get("suite_with_change"), "demo_with_change": v.get("demo_with_change"),
                            "demo_without_change": v.get("demo_without_change"), "confirmed": v.get("confirmed")},
        "source": "written by a fresh sub-agent (third round) given only the property text and its own worktree (agent_notes.md is its report)"}
json.dump(meta, open(f"{d}/meta.json", "w"), indent=1)
print(d, "confirmed" if v.get("confirmed") else "NOT CONFIRMED")
