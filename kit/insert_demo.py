#!/usr/bin/env python3
"""usage: insert_demo.py <demo.rs> <target.rs> [--append]
inserts demo.rs before the final closing brace of target.rs (the end of its `mod tests`), or appends it with --append"""
import sys
demo, target = sys.argv[1], sys.argv[2]
d = open(demo).read()
t = open(target).read().rstrip("\n")
if "--append" in sys.argv:
    open(target, "w").write(t + "\n\n" + d + "\n")
else:
    assert t.endswith("}")
    open(target, "w").write(t[:-1].rstrip("\n") + "\n\n" + d.rstrip("\n") + "\n}\n")
